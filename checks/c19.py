"""C19 - the free-arithmetics switch is scoped, restored and isolated per context.

Real threads and real asyncio tasks run seeded programs against
`physt.config.config` and histogram arithmetic under the baton scheduler of
sim/actors.py.  Every read and every probe outcome is compared with a per-actor
flag model (scoped restore, thread = fresh context, task = copy of the
creator's context at creation).
"""
from __future__ import annotations

import asyncio
import contextvars
import os

import numpy as np

import sim  # noqa: F401
from sim.actors import ActorKilled, AppError, Scheduler, TaskActor, ThreadActor
from sim.core import HarnessError, attempt, deep_tier

PROPERTY = "C19"
LEVEL = "exploration"
RUNS = {"quick": 24000, "thorough": 600000}
WALL = {"quick": 240, "thorough": 1500}
PARTITIONS = [
    {"name": "env-unset", "env": {"PHYST_FREE_ARITHMETICS": None}},
    {"name": "env-0", "env": {"PHYST_FREE_ARITHMETICS": "0"}},
    {"name": "env-1", "env": {"PHYST_FREE_ARITHMETICS": "1"}},
]
FAULT_KINDS = ["preempt_line", "preempt_step", "task_switch_in_context", "thread_switch_in_context",
               "exception_in_body", "cancel_in_context", "nested_context", "spawn_child",
               "set_inside_context", "to_thread_copy"]
RULE = ("one run = 2-5 actors (real threads / asyncio tasks, optionally spawning children) executing seeded "
        "programs of nested enable_free_arithmetics blocks, sets, reads, raises and arithmetic probes under a "
        "seeded schedule of (actor, quantum) with pre-emption at de-duplicated line events inside physt; "
        "distinct = distinct sequence of (actor kind, park reason, nesting depth) over the whole run; "
        "non-trivial = at least one switch away from an actor parked inside a context, a line-level "
        "pre-emption, an exception in a body or a cancellation fired")
COMPONENTS = {
    "real": ["physt.config (ContextVar, context managers)", "physt.histogram_base guards and arithmetic",
             "physt.histogram1d / histogram_nd", "numpy", "CPython contextvars, threading.Thread contexts, "
             "asyncio.Task context copying and cancellation", "contextlib generator context managers"],
    "simulated": ["OS/GIL thread scheduling (baton: one runnable actor, seeded choice of who runs and for how long)",
                  "asyncio readiness order (each task awaits a future only the scheduler resolves)",
                  "process environment default (fresh interpreter per PHYST_FREE_ARITHMETICS value)"],
}
ASSUMPTIONS = [
    "pre-emption granularity is one source line of physt's Python frames (sys.settrace); switches inside a "
    "bytecode or inside numpy C code are not explored",
    "ContextVar semantics of CPython 3.12 (new thread = empty context, task = copy of creator's context)",
    "sampling, not exhaustive enumeration of schedules",
]

PROBES = ["add_array", "iadd_array", "mul_array", "div_array", "sub_array", "neg_setter",
          "neg_factor", "oversub", "sub_ok", "neg_setter_tail", "oversub_tail",
          # array operands that leave no bin negative (only the switch can refuse them), in other spellings
          "sub_array_small", "isub_array_small", "sub_list_small", "add_list", "radd_array", "rsub_like",
          # a histogram that carries negative contents (made while the switch was on) added while it is off
          "add_negative_hist", "iadd_negative_hist",
          # operations on a collection of histograms: legal with the switch on or off, and they must leave it alone
          "coll_normalize_bins", "coll_normalize_all", "coll_sum",
          # array-like operands on the LEFT that happen to be all zero (or empty): still array arithmetic
          "radd_zero_array", "radd_zero_list", "radd_zero_int_array",
          # refused with the switch on or off - they exercise the raising paths of the operators:
          "sub_incompatible", "sub_other_ndim", "add_incompatible", "isub_incompatible", "mul_hist", "div_hist"]
ALWAYS_REFUSED = {"sub_incompatible", "sub_other_ndim", "add_incompatible", "isub_incompatible", "mul_hist", "div_hist"}


# ----------------------------------------------------------------------------
# generation
# ----------------------------------------------------------------------------
def gen_block(rng, depth, budget, spawnable, allow_raise):
    n = rng.randint(1, 4 if depth else 5)
    out = []
    for _ in range(n):
        if budget[0] <= 0:
            break
        budget[0] -= 1
        r = rng.random()
        if r < 0.30 and depth < 3:
            body = gen_block(rng, depth + 1, budget, spawnable, True)
            out.append({"op": "with", "v": rng.random() < 0.6, "catch": rng.random() < 0.6,
                        "noarg": rng.random() < 0.15, "body": body})
        elif r < 0.45:
            out.append({"op": "read"})
        elif r < 0.75:
            out.append({"op": "probe", "kind": rng.choice(PROBES), "nd": rng.random() < 0.25,
                        # a few probes work on histograms of thousands of bins (block-wise guards)
                        "wide": rng.random() < 0.06})
        elif r < 0.85:
            out.append({"op": "set", "v": rng.random() < 0.5})
        elif r < 0.92 and allow_raise:
            out.append({"op": "raise"})
        elif r < 0.97 and spawnable:
            out.append({"op": "spawn", "child": spawnable.pop(0)})
        elif r < 0.985 and depth < 3:
            # (ignored by thread actors) run a block in asyncio.to_thread: it sees a *copy* of the caller's context
            out.append({"op": "to_thread", "body": gen_block(rng, depth + 1, budget, [], True)})
        else:
            out.append({"op": "read"})
    return out


def generate(rng, seed, part):
    env = PARTITIONS[part]["env"]["PHYST_FREE_ARITHMETICS"]
    n_root = rng.randint(2, 4)
    n_child = rng.randint(0, 2)
    deep = deep_tier(rng)
    if deep:
        n_root = rng.randint(3, 6)
        n_child = rng.randint(1, 4)
    actors = []
    child_ids = list(range(n_root, n_root + n_child))
    style = rng.choice(["mixed", "mixed", "threads", "tasks"])
    for aid in range(n_root + n_child):
        if style == "threads":
            kind = "thread"
        elif style == "tasks":
            kind = "task"
        else:
            kind = rng.choice(["thread", "task"])
        actors.append({"id": aid, "kind": kind, "root": aid < n_root, "program": None})
    spawnable = list(child_ids)
    for a in actors:
        budget = [rng.randint(4, 14) if not deep else rng.randint(10, 30)]
        can_spawn = []
        # a thread cannot create asyncio tasks (no loop in its thread)
        if a["root"]:
            while spawnable and rng.random() < 0.7:
                c = spawnable[0]
                if a["kind"] == "thread" and actors[c]["kind"] == "task":
                    actors[c]["kind"] = "thread"
                can_spawn.append(spawnable.pop(0))
        a["program"] = gen_block(rng, 0, budget, can_spawn, False)
        for c in can_spawn:  # not placed: keep reachable by appending
            a["program"].append({"op": "spawn", "child": c})
    for c in spawnable:  # nobody adopted: attach to actor 0
        if actors[0]["kind"] == "thread" and actors[c]["kind"] == "task":
            actors[c]["kind"] = "thread"
        actors[0]["program"].append({"op": "spawn", "child": c})
    sched = []
    n_sched = rng.randint(10, 70) if not deep else rng.randint(60, 250)
    ids = [a["id"] for a in actors]
    for _ in range(n_sched):
        r = rng.random()
        q = 1 if r < 0.4 else (rng.randint(2, 5) if r < 0.8 else rng.randint(6, 40))
        if rng.random() < 0.04:
            sched.append({"a": rng.choice(ids), "cancel": True})
        else:
            sched.append({"a": rng.choice(ids), "q": q})
    return {
        "property": PROPERTY,
        "scenario": "actors",
        "config": {"env": {"PHYST_FREE_ARITHMETICS": env},
                   "main_set": rng.choice([None, None, True, False]),
                   "actors": [{"id": a["id"], "kind": a["kind"], "root": a["root"]} for a in actors]},
        "programs": {str(a["id"]): a["program"] for a in actors},
        "ops": sched,
    }


# ----------------------------------------------------------------------------
# execution
# ----------------------------------------------------------------------------
class Interp:
    """Program interpreter of one actor; carries the actor's flag model."""

    def __init__(self, world, actor, spec, base):
        self.w = world
        self.actor = actor
        self.spec = spec
        self.model = base
        self.depth = 0
        self.h1 = None
        self.h2 = None

    def hist(self, nd, wide=False):
        from physt.binnings import FixedWidthBinning, StaticBinning
        from physt.histogram1d import Histogram1D
        from physt.histogram_nd import Histogram2D, HistogramND

        if wide and nd:
            axes = [FixedWidthBinning(bin_width=0.25, bin_count=18, bin_times_min=0) for _ in range(3)]
            return HistogramND(axes, frequencies=np.arange(1, 18 ** 3 + 1).reshape(18, 18, 18) % 7 + 1)
        if wide:
            return Histogram1D(FixedWidthBinning(bin_width=0.5, bin_count=5000, bin_times_min=0),
                               frequencies=np.arange(1, 5001) % 7 + 1)
        if nd:
            return Histogram2D([StaticBinning([0.0, 1.0, 2.0]), StaticBinning([0.0, 1.0, 2.0, 3.0])],
                               frequencies=np.array([[1, 2, 3], [4, 5, 6]]))
        return Histogram1D(StaticBinning([0.0, 1.0, 2.0, 3.0]), frequencies=np.array([1, 2, 3]))

    def where(self):
        return "in-context" if self.depth else "top"

    def check_read(self, ctx, tag):
        from physt.config import config

        val = config.free_arithmetics
        ctx.ev(self.actor.aid, "read:" + tag, None, f"{val}|{self.model}")
        from sim.oracle import chaos

        if chaos() or bool(val) != bool(self.model) or not isinstance(val, bool):
            ctx.violation(
                "C19/read-equals-model",
                f"C19/read!=model/{self.actor.kind}/{tag}/{self.where()}",
                f"actor {self.actor.aid} ({self.actor.kind}) read free_arithmetics={val!r} at {tag} "
                f"(depth {self.depth}) but its own context implies {self.model!r}; "
                f"other actors: {self.w.describe_others(self.actor.aid)}")

    def probe(self, ctx, kind, nd, wide=False):
        h = self.hist(nd, wide)
        if wide:
            ctx.probe("probe_on_wide_histogram")
        shape = h.shape
        arr = np.ones(shape, dtype=np.int64)
        if kind == "add_array":
            fn = lambda: h + arr  # noqa: E731
        elif kind == "iadd_array":
            def fn():
                c = h.copy()
                c += arr
                return c
        elif kind == "mul_array":
            fn = lambda: h * (arr * 2)  # noqa: E731
        elif kind == "div_array":
            fn = lambda: h / (arr * 2.0)  # noqa: E731
        elif kind == "sub_array":
            fn = lambda: h - arr * 10  # noqa: E731
        elif kind == "sub_array_small":
            fn = lambda: h - arr  # noqa: E731  (every bin holds at least 1)
        elif kind == "isub_array_small":
            def fn():
                c = h.copy()
                c -= arr
                return c
        elif kind == "sub_list_small":
            fn = lambda: h - arr.tolist()  # noqa: E731
        elif kind == "add_list":
            fn = lambda: h + arr.tolist()  # noqa: E731
        elif kind == "radd_array":
            fn = lambda: arr.tolist() + h  # noqa: E731  (reflected operator, list on the left)
        elif kind == "rsub_like":
            fn = lambda: h - np.zeros(shape)  # noqa: E731  (subtracting nothing is still array arithmetic)
        elif kind == "neg_setter":
            def fn():
                c = h.copy()
                c.frequencies = -np.ones(shape)
                return c
        elif kind == "neg_setter_tail":
            def fn():
                c = h.copy()
                vals = np.array(c.frequencies, dtype=float)
                vals.reshape(-1)[-1] = -1.0  # only the very last bin is negative
                c.frequencies = vals
                return c
        elif kind == "oversub_tail":
            def fn():
                other = h.copy()
                vals = np.zeros(shape)
                vals.reshape(-1)[-1] = float(np.asarray(h.frequencies).reshape(-1)[-1]) + 2.0
                other.frequencies = vals
                return h - other  # negative in the last bin only
        elif kind in ("add_negative_hist", "iadd_negative_hist"):
            from physt.config import config as _cfg

            with _cfg.enable_free_arithmetics():
                neg = h * (-3)  # legal here; the context ends before the addition below
            if kind == "add_negative_hist":
                fn = lambda: h + neg  # noqa: E731
            else:
                def fn():
                    c = h.copy()
                    c += neg
                    return c
        elif kind in ("coll_normalize_bins", "coll_normalize_all", "coll_sum"):
            from physt.histogram_collection import HistogramCollection
            from physt.histogram1d import Histogram1D as _H1

            m1 = h if h.ndim == 1 else self.hist(False, False)
            coll = HistogramCollection(m1.copy(), _H1(m1.binning.copy(), frequencies=np.asarray(m1.frequencies) + 1))
            if kind == "coll_normalize_bins":
                fn = lambda: coll.normalize_bins(inplace=bool(self.depth % 2))  # noqa: E731
            elif kind == "coll_normalize_all":
                fn = lambda: coll.normalize_all(inplace=bool(self.depth % 2))  # noqa: E731
            else:
                fn = coll.sum
        elif kind == "radd_zero_array":
            fn = lambda: np.zeros(shape) + h  # noqa: E731
        elif kind == "radd_zero_int_array":
            fn = lambda: np.zeros(shape, dtype=np.int64) + h  # noqa: E731
        elif kind == "radd_zero_list":
            fn = lambda: np.zeros(shape).tolist() + h  # noqa: E731
        elif kind == "neg_factor":
            fn = lambda: h * (-1)  # noqa: E731
        elif kind == "oversub":
            fn = lambda: h - h * 3  # noqa: E731
        elif kind == "sub_ok":
            fn = lambda: h - h.copy()  # noqa: E731  (never negative: accepted in both modes)
        elif kind in ("sub_incompatible", "add_incompatible", "isub_incompatible"):
            from physt.binnings import StaticBinning

            bs = [StaticBinning(np.asarray(b.bins, dtype=float) + 0.37) for b in h.binnings]
            other = type(h)(bs[0]) if h.ndim == 1 else type(h)(bs)
            if kind == "sub_incompatible":
                fn = lambda: h - other  # noqa: E731
            elif kind == "add_incompatible":
                fn = lambda: h + other  # noqa: E731
            else:
                def fn():
                    c = h.copy()
                    c -= other
                    return c
        elif kind == "sub_other_ndim":
            other = self.hist(not nd) if not wide else self.hist(nd, False)
            fn = lambda: h - other  # noqa: E731
        elif kind == "mul_hist":
            fn = lambda: h * h.copy()  # noqa: E731
        elif kind == "div_hist":
            fn = lambda: h / h.copy()  # noqa: E731
        else:
            raise HarnessError(kind)
        expected = bool(self.model)
        if kind in ALWAYS_REFUSED:
            expected = False
        elif kind == "sub_ok" or kind.startswith("coll_"):
            expected = True
        ok, res = attempt(fn)
        if not ok and isinstance(res, (ActorKilled,)):
            raise res
        ctx.ev(self.actor.aid, "probe:" + kind, int(nd), f"{'ok' if ok else type(res).__name__}|{expected}")
        ctx.probe("probe_accepted" if ok else "probe_refused")
        from sim.oracle import chaos

        if chaos() or ok != expected:
            what = "accepted-without-flag" if ok else "refused-with-flag"
            if kind in ALWAYS_REFUSED or kind == "sub_ok" or kind.startswith("coll_"):
                what = "accepted-in-either-mode" if ok else "refused-in-either-mode"
            ctx.violation(
                "C19/guard-follows-context",
                f"C19/probe/{kind}/{what}/{self.actor.kind}/{self.where()}",
                f"actor {self.actor.aid} ({self.actor.kind}) with free_arithmetics={self.model!r} in its context: "
                f"{kind} on a {'2-D' if nd else '1-D'} histogram was "
                f"{'accepted' if ok else 'refused with ' + repr(res)}; others: {self.w.describe_others(self.actor.aid)}")

    async def run_block(self, ctx, instrs):
        from physt.config import config

        for ins in instrs:
            await self.actor.point("step")
            op = ins["op"]
            if op == "with":
                save = self.model
                v = True if ins.get("noarg") else ins["v"]
                if self.depth:
                    ctx.fault("nested_context")
                ctx.ev(self.actor.aid, "enter", self.depth, str(v))
                try:
                    try:
                        cm = config.enable_free_arithmetics() if ins.get("noarg") else \
                            config.enable_free_arithmetics(v)
                        with cm:
                            self.model = v
                            self.depth += 1
                            try:
                                self.check_read(ctx, "after-enter")
                                await self.run_block(ctx, ins["body"])
                                await self.actor.point("step")
                                self.check_read(ctx, "before-exit")
                            finally:
                                self.depth -= 1
                    finally:
                        self.model = save
                    ctx.ev(self.actor.aid, "exit", self.depth, "normal")
                    self.check_read(ctx, "after-exit")
                except AppError:
                    ctx.ev(self.actor.aid, "exit", self.depth, "exception")
                    self.check_read(ctx, "after-exception-exit")
                    if not ins.get("catch"):
                        raise
            elif op == "read":
                self.check_read(ctx, "read")
            elif op == "set":
                if self.depth:
                    ctx.fault("set_inside_context")
                config.free_arithmetics = ins["v"]
                self.model = ins["v"]
                ctx.ev(self.actor.aid, "set", self.depth, str(ins["v"]))
                self.check_read(ctx, "after-set")
            elif op == "probe":
                self.probe(ctx, ins["kind"], ins.get("nd", False), ins.get("wide", False))
                self.check_read(ctx, "after-probe:" + ("raising" if ins["kind"] in ALWAYS_REFUSED else "arith"))
            elif op == "raise":
                if self.depth:
                    ctx.fault("exception_in_body")
                ctx.ev(self.actor.aid, "raise", self.depth)
                raise AppError()
            elif op == "spawn":
                await self.w.spawn(ctx, self, ins["child"])
            elif op == "to_thread":
                if self.actor.kind != "task":
                    continue
                await self.in_thread(ctx, ins["body"])
            else:
                raise HarnessError(f"unknown instruction {op}")


class _Inline:
    """Actor stand-in for a block executed inside asyncio.to_thread: no scheduling points of its own."""

    kind = "to_thread"

    def __init__(self, aid):
        self.aid = f"{aid}/to_thread"

    async def point(self, reason="step"):
        return None


async def _in_thread(self, ctx, body):
    """The block runs in a pool thread with a copy of the calling task's context: it starts from the task's
    current value, and nothing it sets or enters is visible to the task afterwards."""
    sub = Interp(self.w, _Inline(self.actor.aid), self.spec, self.model)
    sub.depth = self.depth
    ctx.fault("to_thread_copy")
    ctx.ev(self.actor.aid, "to_thread:start", self.depth, str(self.model))

    def run():
        coro = sub.run_block(ctx, body)
        try:
            coro.send(None)
        except StopIteration:
            pass
        else:
            coro.close()
            raise HarnessError("to_thread block awaited something real")

    try:
        await asyncio.to_thread(run)
    except AppError:
        ctx.ev(self.actor.aid, "to_thread:app-error", self.depth)
    ctx.ev(self.actor.aid, "to_thread:end", self.depth, str(self.model))
    self.check_read(ctx, "after-to_thread")


Interp.in_thread = _in_thread


class World:
    def __init__(self, plan, ctx):
        self.plan = plan
        self.ctx = ctx
        self.sched = Scheduler()
        self.specs = {a["id"]: a for a in plan["config"]["actors"]}
        self.programs = {int(k): v for k, v in plan.get("programs", {}).items()}
        self.interps = {}
        env = plan["config"]["env"]["PHYST_FREE_ARITHMETICS"]
        self.default = env == "1"

    def describe_others(self, aid):
        return {i: (it.actor.kind, it.model, it.depth) for i, it in self.interps.items() if i != aid}

    def make_actor(self, aid, base_for_task):
        spec = self.specs[aid]
        world = self
        ctx = self.ctx

        async def body(actor):
            it = world.interps[aid]
            cancelled = False
            try:
                it.check_read(ctx, "start")
                await it.run_block(ctx, world.programs.get(aid, []))
            except AppError:
                ctx.ev(aid, "uncaught-app-error")
            except asyncio.CancelledError:
                if not actor.cancel_requested:
                    raise
                cancelled = True
                ctx.ev(aid, "cancelled")
            # all contexts of this actor have exited (normally, by exception or by cancellation)
            it.depth = 0
            it.check_read(ctx, "after-cancel" if cancelled else "final")

        if spec["kind"] == "thread":
            actor = ThreadActor(self.sched, aid, body)
            base = self.default  # a new thread starts from an empty context
        else:
            actor = TaskActor(self.sched, aid, body)
            base = base_for_task  # copy of the creator's context
        self.sched.register(actor)
        self.interps[aid] = Interp(self, actor, spec, base)
        return actor

    async def spawn(self, ctx, parent_it, child_id):
        if child_id not in self.specs or child_id in self.interps:
            return
        if parent_it.actor.kind == "thread" and self.specs[child_id]["kind"] == "task":
            return  # not expressible (no loop in that thread); generator never emits it
        ctx.fault("spawn_child")
        actor = self.make_actor(child_id, parent_it.model)
        ctx.ev(parent_it.actor.aid, "spawn", child_id, actor.kind)
        if isinstance(actor, ThreadActor):
            actor.start()
        else:
            f = actor.create(asyncio.get_running_loop())
            await f  # let the child reach its first gate (it executes no instruction before it)

    async def master(self):
        from physt.config import config

        ctx = self.ctx
        main_model = self.default
        val = config.free_arithmetics
        if bool(val) != main_model:
            ctx.violation("C19/env-default", f"C19/env-default/main/{self.plan['config']['env']}",
                          f"main context reads {val!r} with PHYST_FREE_ARITHMETICS="
                          f"{self.plan['config']['env']['PHYST_FREE_ARITHMETICS']!r}")
        ms = self.plan["config"].get("main_set")
        if ms is not None:
            config.free_arithmetics = ms
            main_model = ms
        try:
            for spec in self.plan["config"]["actors"]:
                if spec.get("root"):
                    a = self.make_actor(spec["id"], main_model)
                    await self.sched.start_actor(a)
            for entry in self.plan.get("ops", []):
                a = self.sched.actors.get(entry["a"])
                if a is None or a.done or not a.started:
                    continue
                await self.step(a, entry)
            # drain: round-robin with large quanta until everybody is finished
            guard = 0
            while True:
                live = self.sched.runnable()
                if not live:
                    break
                guard += 1
                if guard > 10000:
                    raise HarnessError("actors do not terminate")
                await self.step(live[0], {"q": 1000})
            val = config.free_arithmetics
            ctx.ev("main", "final-read", None, f"{val}|{main_model}")
            if bool(val) != bool(main_model):
                ctx.violation("C19/read-equals-model", "C19/read!=model/main/final/top",
                              f"main context reads {val!r} after all actors finished, expected {main_model!r}")
        finally:
            await self.sched.shutdown()

    async def step(self, a, entry):
        ctx = self.ctx
        it = self.interps[a.aid]
        cancel = bool(entry.get("cancel")) and isinstance(a, TaskActor)
        if entry.get("cancel") and not cancel:
            return
        if cancel:
            if it.depth:
                ctx.fault("cancel_in_context")
            ctx.probe("cancel")
        ctx.advance()
        ctx.step += 1
        await self.sched.resume(a, entry.get("q", 1), cancel=cancel)
        reason = a.park_reason
        ctx.ev("sched", "ran", a.aid, f"{reason}:{a.consumed}")
        ctx.abstract(a.kind, reason, it.depth)
        if reason == "line":
            ctx.fault("preempt_line")
        elif reason == "step":
            ctx.fault("preempt_step") if it.depth == 0 else None
        if reason != "done" and it.depth:
            ctx.fault("task_switch_in_context" if a.kind == "task" else "thread_switch_in_context")
        ctx.state(tuple((i, x.model, x.depth) for i, x in sorted(self.interps.items())))


def execute(plan, ctx):
    env = plan["config"]["env"]["PHYST_FREE_ARITHMETICS"]
    if os.environ.get("PHYST_FREE_ARITHMETICS") != env:
        raise HarnessError(
            f"process environment PHYST_FREE_ARITHMETICS={os.environ.get('PHYST_FREE_ARITHMETICS')!r} "
            f"does not match the plan ({env!r})")
    ctx.probe(f"env={env}")
    world = World(plan, ctx)

    def in_fresh_context():
        loop = asyncio.new_event_loop()
        try:
            loop.run_until_complete(world.master())
        finally:
            loop.close()

    # each run gets a copy of the pristine process context as its "main" context
    contextvars.copy_context().run(in_fresh_context)


def simplify(plan):
    """Candidates: drop an actor's whole program, drop single instructions, flatten with-blocks."""
    import copy

    progs = plan.get("programs", {})
    for k in sorted(progs):
        if progs[k]:
            c = copy.deepcopy(plan)
            c["programs"][k] = []
            yield c

    def paths(block, prefix):
        for i, ins in enumerate(block):
            yield prefix + [i]
            if ins["op"] in ("with", "to_thread"):
                yield from paths(ins["body"], prefix + [i, "body"])

    for k in sorted(progs):
        for path in list(paths(progs[k], [])):
            c = copy.deepcopy(plan)
            blk = c["programs"][k]
            for p in path[:-1]:
                blk = blk[p]
            del blk[path[-1]]
            yield c
    if plan["config"].get("main_set") is not None:
        c = copy.deepcopy(plan)
        c["config"]["main_set"] = None
        yield c
