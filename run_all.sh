#!/bin/bash
# usage: run_all.sh [quick|thorough]  - runs every claimed check in turn and prints one summary line each
TIER=${1:-quick}
cd "$(dirname "$(readlink -f "$0")")"
rc_all=0
for P in $(python3 -c "import json;print(' '.join(c['id'] for c in json.load(open('claims.json'))))"); do
  out=$(timeout 7200 /venv/bin/python run.py --property $P --tier $TIER 2>&1); rc=$?
  echo "$out" | grep -E "^(VIOLATION|$P $TIER:)" | cut -c1-220
  echo "$out" | grep -c "^KNOWN-FINDING" | sed "s/^/   known-finding lines: /"
  [ $rc -ne 0 ] && { echo "   exit code $rc"; rc_all=1; echo "$out" | grep -E "HARNESS|Traceback" | head -5; }
done
exit $rc_all
