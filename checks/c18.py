"""C18 - histograms stay well-formed; failed operations change nothing.

Invalid-call injection: histories of valid public operations on a live node
(1-D / N-D, adaptive or fixed, int or float, gapped) with invalid calls from a
typed catalogue injected at seeded positions.  After every event the node must
be well-formed (matching shapes, errors2 >= 0, contents >= 0).  Whenever an
operation raises - injected or not - every recorded content per bin interval,
squared error and missed count must be numerically what it was (a lossless
dtype promotion is allowed, and so are additional *empty* bins).  A twin
replica receives only the valid operations: at the end both must agree on
every interval with content (this is also the liveness check: after the last
fault every valid operation still succeeds exactly when it does on the twin).
"""
from __future__ import annotations

import math

import numpy as np

import sim  # noqa: F401
from sim import build
from sim.core import attempt, bulk_tier, deep_tier, exc_tag
from sim.oracle import carry_over, first_diff, hist_arrays, missed_tuple, wellformed_problems

PROPERTY = "C18"
LEVEL = "fault_enumeration"
RUNS = {"quick": 60000, "thorough": 1000000}
WALL = {"quick": 240, "thorough": 1500}
PARTITIONS = [{"name": "default", "env": {}}]

CATALOGUE = [
    # operand faults
    "iadd_incompatible", "iadd_other_ndim", "iadd_int", "iadd_str", "iadd_none", "iadd_list", "iadd_ndarray",
    "iadd_float_into_int_incompatible", "isub_incompatible", "isub_other_ndim", "isub_str", "isub_ndarray",
    "isub_more_than_there", "isub_float_more_than_there", "imul_hist", "idiv_hist", "rdiv", "imul_negative",
    "idiv_negative", "imul_array", "idiv_array", "imul_str", "add_incompatible", "sub_more_than_there",
    "imul_factor_square_overflows", "idiv_zero",
    # data faults
    "fill_nonscalar", "fill_wrong_length", "fill_str_weight", "fill_n_wrong_rank", "fill_n_wrong_columns",
    "fill_n_weights_wrong_length", "fill_n_weights_str", "fill_n_values_str", "fill_n_grow_then_bad_weights",
    "fill_n_bulk_weights_too_short", "fill_n_bulk_weights_too_long",
    "fill_weight_too_large_for_dtype", "fill_n_weight_too_large_for_dtype",
    "fill_grow_then_too_short", "fill_grow_then_none_coordinate", "fill_grow_then_str_weight",
    # dtype faults
    "dtype_complex", "dtype_str", "dtype_object", "dtype_lossy_int", "dtype_too_narrow", "dtype_setter_lossy",
    # axis faults
    "projection_bad_index", "projection_bad_name", "projection_bad_type", "merge_bad_axis", "select_bad_axis",
    "partial_normalize_bad_axis", "accumulate_bad_axis", "find_bin_bad_axis",
    # index faults
    "index_reversed_slice", "index_too_many", "index_out_of_range", "index_wrong_mask",
    # merge faults
    "merge_non_integral", "merge_zero", "merge_across_gap", "merge_all_axes_across_gap",
    # setter faults
    "set_frequencies_wrong_shape", "set_frequencies_negative", "set_errors2_wrong_shape", "set_errors2_negative",
    # collection / adaptivity faults
    "collection_other_binning", "collection_add_other_binning", "set_adaptive_on_static",
    "collection_create_bad_weights", "collection_create_bad_values",
]
FAULT_KINDS = ["invalid:" + c for c in CATALOGUE] + ["fault_after_growth", "derived_object_filled"]
RULE = ("one run = one live node of a seeded family (1-D fixed int/float, 1-D adaptive, 1-D gapped, 2-D fixed, 2-D "
        "adaptive, 2-D with a gapped axis, 3-D fixed) and a twin, a seeded history (<= 14) of valid operations (fill, "
        "fill_n, += , *=, /=, merge_bins(inplace), set_dtype, normalize(inplace)) with 1-5 invalid calls from a "
        f"{len(CATALOGUE)}-entry typed catalogue injected at seeded positions; every catalogue entry is drawn "
        "uniformly so each fires thousands of times per batch on every family it applies to (fired counts are in "
        "faults_fired); distinct = distinct sequence of (op or invalid kind, node family, outcome); non-trivial = at "
        "least one injected call raised")
COMPONENTS = {
    "real": ["validating setters frequencies / errors2", "__iadd__/__isub__/__imul__/__itruediv__/set_dtype/merge_bins "
             "(order of validation vs mutation)", "fill / fill_n argument checks of Histogram1D and HistogramND",
             "projection/select/accumulate/partial_normalize/find_bin axis checks, __getitem__",
             "HistogramCollection constructor / add", "numpy"],
    "simulated": ["the operation history and the positions / kinds of the injected invalid calls"],
}
ASSUMPTIONS = [
    "weights are non-negative and free arithmetics is off (the statement's precondition for the sign invariant)",
    "an injected call that does not raise is not judged here unless it produces a negative content (only the "
    "sign clause demands refusal); the run then ends, because the twin cannot follow",
    "'per bin interval': a refused call may have grown additional empty bins on an adaptive histogram",
]

FAMILIES = ["1d_int", "1d_float", "1d_adaptive", "1d_gapped", "2d_fixed", "2d_adaptive", "2d_gapped_axis", "3d_fixed",
            "1d_int32", "1d_gapped_int", "1d_float_no_missed", "2d_no_missed", "2d_fortran", "2d_thin",
            "1d_adaptive_unborn", "2d_adaptive_unborn"]
VALID = ["fill", "fill", "fill_w", "fill_n", "fill_n", "fill_n_w", "iadd_copy", "imul", "idiv", "merge", "set_dtype",
         "normalize", "fill_far", "isub_half", "iadd_float_copy", "isub_small_int", "fill_heavy", "iadd_batch_built",
         "iadd_batch_built", "fill_a_derived", "fill_a_derived", "fill_w200", "fill_w200", "iadd_kept_operand",
         "add_kept_operand"]
# operands of earlier additions that the caller keeps: histograms like any other, so they too must be well-formed
# after whatever happens later (filled per run by apply_valid, keyed by id of the node / twin; cleared by execute)
KEPT = {}


def generate(rng, seed, part):
    fam = rng.choice(FAMILIES)
    if bulk_tier(rng):
        fam = rng.choice(["1d_wide", "3d_wide"])  # more than 4096 bins
    ops = []
    n = rng.randint(2, 14)
    n_inv = rng.randint(1, 5)
    if deep_tier(rng):
        n = rng.randint(15, 40)
        n_inv = rng.randint(3, 12)
    inv_at = set(rng.sample(range(n), min(n, n_inv)))
    for k in range(n):
        if k in inv_at:
            ops.append({"op": "invalid", "kind": rng.choice(CATALOGUE), "arg": rng.randrange(1 << 16)})
        else:
            ops.append({"op": "valid", "kind": rng.choice(VALID), "arg": rng.randrange(1 << 16)})
    return {"property": PROPERTY, "scenario": "invalid_injection",
            "config": {"family": fam, "seed": rng.randrange(1 << 30), "prefill": rng.choice([0, 3, 8])}, "ops": ops}


# ----------------------------------------------------------------------------
# nodes
# ----------------------------------------------------------------------------
def make_node(cfg):
    import random

    from physt.binnings import FixedWidthBinning, StaticBinning
    from physt.histogram1d import Histogram1D
    from physt.histogram_nd import Histogram2D, HistogramND

    fam = cfg["family"]
    r = random.Random(cfg["seed"])
    if fam in ("1d_int", "1d_float", "1d_int32"):
        dt = {"1d_int": None, "1d_float": np.float64, "1d_int32": np.int32}[fam]
        h = Histogram1D(StaticBinning(np.array([[0.0, 1.0], [1.0, 2.0], [2.0, 3.5], [3.5, 4.0]])),
                        **({"dtype": dt} if dt else {}))
    elif fam == "1d_wide":
        h = Histogram1D(FixedWidthBinning(bin_width=0.0009765625, bin_count=5000, bin_times_min=0), dtype=np.float64)
    elif fam == "3d_wide":
        h = HistogramND([FixedWidthBinning(bin_width=0.25, bin_count=18, bin_times_min=0) for _ in range(3)])
    elif fam in ("1d_adaptive_unborn", "2d_adaptive_unborn"):
        # adaptive, no bins yet - and somebody has already looked at the (empty) bins
        if fam.startswith("1d"):
            h = Histogram1D(FixedWidthBinning(bin_width=0.5, bin_count=0, adaptive=True))
        else:
            h = Histogram2D([FixedWidthBinning(bin_width=1.0, bin_count=0, adaptive=True),
                             FixedWidthBinning(bin_width=2.0, bin_count=0, adaptive=True)])
        _ = h.bins, h.shape
        if h.ndim == 1:
            _ = h.bin_left_edges
    elif fam == "1d_adaptive":
        h = Histogram1D(FixedWidthBinning(bin_width=0.5, bin_count=4, bin_times_min=0, adaptive=True))
    elif fam == "1d_gapped":
        h = Histogram1D(StaticBinning(np.array([[0.0, 1.0], [1.5, 2.0], [2.0, 3.0], [3.0, 4.0]])), dtype=np.float64)
    elif fam == "1d_gapped_int":
        # integer contents over bins with a gap: under/overflow are known (integers) until a batch or a gap value
        # makes them unknown (NaN, kept as floats)
        h = Histogram1D(StaticBinning(np.array([[0.0, 1.0], [1.5, 2.0], [2.0, 3.0], [3.0, 4.0]])))
    elif fam == "1d_float_no_missed":
        h = Histogram1D(StaticBinning(np.array([[0.0, 1.0], [1.0, 2.0], [2.0, 3.5], [3.5, 4.0]])), dtype=np.float64,
                        keep_missed=False)
    elif fam == "2d_fortran":
        # contents handed to the constructor in Fortran order (e.g. the transpose of numpy.histogram2d's result)
        contents = np.asfortranarray(np.arange(6, dtype=np.int64).reshape(3, 2) % 4)
        h = Histogram2D([StaticBinning(np.array([[0.0, 1.0], [1.0, 2.5], [2.5, 4.0]])),
                         StaticBinning(np.array([[0.0, 2.0], [2.0, 4.0]]))], frequencies=contents,
                        errors2=np.asfortranarray(contents + 1))
    elif fam == "2d_thin":
        h = Histogram2D([StaticBinning(np.array([[0.0, 4.0]])),
                         StaticBinning(np.array([[0.0, 1.0], [1.0, 2.5], [2.5, 4.0]]))])
    elif fam == "2d_no_missed":
        h = Histogram2D([StaticBinning(np.array([[0.0, 1.0], [1.0, 2.5], [2.5, 4.0]])),
                         StaticBinning(np.array([[0.0, 2.0], [2.0, 4.0]]))], keep_missed=False)
    elif fam == "2d_fixed":
        h = Histogram2D([StaticBinning(np.array([[0.0, 1.0], [1.0, 2.5], [2.5, 4.0]])),
                         StaticBinning(np.array([[0.0, 2.0], [2.0, 4.0]]))])
    elif fam == "2d_adaptive":
        h = Histogram2D([FixedWidthBinning(bin_width=1.0, bin_count=2, bin_times_min=0, adaptive=True),
                         FixedWidthBinning(bin_width=2.0, bin_count=2, bin_times_min=0, adaptive=True)])
    elif fam == "2d_gapped_axis":
        h = Histogram2D([StaticBinning(np.array([[0.0, 1.0], [1.0, 2.0], [2.0, 3.0], [3.0, 4.0]])),
                         StaticBinning(np.array([[0.0, 1.0], [2.0, 3.0], [3.0, 4.0]]))], dtype=np.float64)
    else:
        h = HistogramND([StaticBinning(np.array([[0.0, 2.0], [2.0, 4.0]])) for _ in range(3)])
    n = cfg["prefill"]
    if n:
        vals = np.asarray([[round(r.uniform(0.0, 4.0) * 4) / 4 for _ in range(h.ndim)] for _ in range(n)], dtype=float)
        h.fill_n(vals[:, 0] if h.ndim == 1 else vals)
    return h


def negative_somewhere(current, arg):
    """Contents of the right shape with negative entries everywhere / only in the last cell / only in the first."""
    arr = np.array(current, dtype=np.float64)
    if arg % 3 == 0 or arr.size == 0:
        return -np.ones(arr.shape)
    flat = arr.reshape(-1)
    flat[-1 if arg % 3 == 1 else 0] = -1.0
    return flat.reshape(arr.shape)


def apply_valid(h, kind, arg):
    """One valid in-place operation; returns NotImplemented when not applicable to this node."""
    nd = h.ndim
    base = [0.25 + (arg % 13) * 0.25 for _ in range(nd)]
    if kind == "fill_heavy":
        v = base[0] if nd == 1 else base
        return h.fill(v, 100000)
    if kind == "fill_w200":
        v = base[0] if nd == 1 else base
        return h.fill(v, 200)  # content 200, squared error 40000
    if kind in ("fill", "fill_w", "fill_far"):
        if kind == "fill_far":
            base = [x + 5.0 + arg % 3 for x in base]
        v = base[0] if nd == 1 else base
        return h.fill(v) if kind != "fill_w" else h.fill(v, [2, 0.5, 1.25][arg % 3])
    if kind in ("fill_n", "fill_n_w"):
        rows = [[x + 0.5 * k for x in base] for k in range(1 + arg % 4)]
        data = np.asarray(rows, dtype=float)
        kw = {} if kind == "fill_n" else {"weights": np.asarray([[1, 2, 3, 4], [0.5, 0.25, 1.5, 2.0]][arg % 2][: len(rows)])}
        return h.fill_n(data[:, 0] if nd == 1 else data, **kw)
    if kind == "iadd_copy":
        other = h.copy()
        h += other
        return None
    if kind == "isub_half":
        other = h.copy()
        other *= 0.5
        h -= other
        return None
    if kind == "isub_small_int":
        other = h.copy(include_frequencies=False)
        h -= other
        return None
    if kind == "iadd_float_copy":
        other = h.copy()
        other *= 0.25
        h += other
        return None
    if kind == "fill_a_derived":
        # no operation on the node at all: something derived from it is filled (the caller checks the node)
        if any(b.bin_count == 0 for b in h.binnings):
            return NotImplemented
        how = ["copy", "T", "projection", "slice", "mul"][arg % 5]
        if how == "T":
            if type(h).__name__ != "Histogram2D":
                return NotImplemented
            d = h.T
        elif how == "projection":
            if nd < 2:
                return NotImplemented
            d = h.projection(arg % nd)
        elif how == "slice":
            if h.shape[0] < 2:
                return NotImplemented
            d = h[1:]
        elif how == "mul":
            d = h * 1
        else:
            d = h.copy()
        lo = [float(np.asarray(b.bins)[0].mean()) for b in d.binnings]
        d.fill(lo[0] if d.ndim == 1 else lo)
        d.fill_n([lo[0]] if d.ndim == 1 else [lo])
        return "node-untouched"
    if kind in ("iadd_kept_operand", "add_kept_operand"):
        # an adaptive operand over another range (it has grown on its own) is added and stays alive: later growth of
        # the node, of the sum or of the operand must leave each of them well-formed
        if not h.is_adaptive():
            return NotImplemented
        other = h.copy(include_frequencies=False)
        # (fixed positions far outside anything the histories reach - not derived from the current bins, which may
        # legitimately differ between node and twin after a refused growth)
        far = [(50.26 + 50 * (arg % 3)) * (1 if arg % 2 else -1) for _ in other.binnings]
        other.fill(far[0] if nd == 1 else far)
        kept = KEPT.setdefault(id(h), [])
        if kind == "iadd_kept_operand":
            h += other
        else:
            total = h + other
            total.fill(far[0] + 40 if nd == 1 else [x + 40 for x in far])  # the sum grows once more
            kept.append(total)
        kept.append(other)
        if arg % 5 == 0:
            other.fill(far[0] - 30 if nd == 1 else [x - 30 for x in far])  # the operand grows after the addition
        return None
    if kind == "iadd_batch_built":
        # the other operand was filled in one batch over the same bins (its missed bookkeeping may be of another kind
        # than the node's: NaN "unknown" for gapped bins, floats next to integers)
        other = h.copy(include_frequencies=False)
        vals = np.asarray([[0.25 + ((arg + 3 * k + j) % 15) * 0.25 for j in range(nd)] for k in range(3)])
        other.fill_n(vals[:, 0] if nd == 1 else vals)
        h += other
        return None
    if kind == "imul":
        h *= [2, 3, 0.5, 1.5][arg % 4]
        return None
    if kind == "idiv":
        h /= [2, 4, 0.5][arg % 3]
        return None
    if kind == "merge":
        ax = arg % nd
        if h.shape[ax] < 2 or not bool(h.binnings[ax].is_consecutive()):
            return NotImplemented
        h.merge_bins(2, axis=ax, inplace=True)
        return None
    if kind == "set_dtype":
        h.set_dtype(np.float64)
        return None
    if kind == "normalize":
        if not h.total > 0:
            return NotImplemented
        h.normalize(inplace=True)
        return None
    return NotImplemented


def apply_invalid(h, kind, arg):
    """Perform one catalogue entry on h; returns NotImplemented when it does not apply to this node."""
    from physt.binnings import StaticBinning
    from physt.histogram1d import Histogram1D
    from physt.histogram_collection import HistogramCollection
    from physt.histogram_nd import HistogramND

    nd = h.ndim
    shape = h.shape

    def shifted():
        bs = [StaticBinning(np.asarray(b.bins, dtype=float) + 0.37) for b in h.binnings]
        o = Histogram1D(bs[0]) if nd == 1 else HistogramND(bs)
        o.fill_n(np.asarray([[float(np.asarray(b.bins)[0, 0]) + 0.1 for b in bs]])[:, 0] if nd == 1 else
                 np.asarray([[float(np.asarray(b.bins)[0, 0]) + 0.1 for b in bs]]))
        return o

    def other_ndim():
        if nd == 1:
            return HistogramND([StaticBinning(np.asarray(h.bins, dtype=float)), StaticBinning([0.0, 1.0])])
        return Histogram1D(StaticBinning(np.asarray(h.bins[0], dtype=float)))

    def bigger(floaty=False):
        o = h.copy()
        o *= (3.5 if floaty else 3)
        o.fill_n(np.asarray([[float(np.asarray(b.bins)[0, 0]) + 0.1 for b in h.binnings]])[:, 0] if nd == 1 else
                 np.asarray([[float(np.asarray(b.bins)[0, 0]) + 0.1 for b in h.binnings]]))
        return o

    if kind == "iadd_incompatible":
        if h.is_adaptive():
            return NotImplemented
        h += shifted()
    elif kind == "iadd_float_into_int_incompatible":
        if h.is_adaptive():
            return NotImplemented
        o = shifted()
        o *= 0.5
        h += o
    elif kind == "add_incompatible":
        if h.is_adaptive():
            return NotImplemented
        h + shifted()
    elif kind == "iadd_other_ndim":
        h += other_ndim()
    elif kind == "iadd_int":
        h += 5
    elif kind == "iadd_str":
        h += "abc"
    elif kind == "iadd_none":
        h += None
    elif kind == "iadd_list":
        h += np.ones(shape).tolist()
    elif kind == "iadd_ndarray":
        h += np.ones(shape)
    elif kind == "isub_incompatible":
        if h.is_adaptive():
            return NotImplemented
        h -= shifted()
    elif kind == "isub_other_ndim":
        h -= other_ndim()
    elif kind == "isub_str":
        h -= "abc"
    elif kind == "isub_ndarray":
        h -= np.ones(shape)
    elif kind == "isub_more_than_there":
        h -= bigger()
    elif kind == "isub_float_more_than_there":
        h -= bigger(True)
    elif kind == "sub_more_than_there":
        h - bigger()
    elif kind == "imul_hist":
        h *= h.copy()
    elif kind == "idiv_hist":
        h /= h.copy()
    elif kind == "rdiv":
        2 / h
    elif kind == "imul_negative":
        h *= -2
    elif kind == "idiv_negative":
        h /= -2.0
    elif kind == "imul_array":
        h *= np.ones(shape) * 2
    elif kind == "idiv_array":
        h /= np.ones(shape) * 2
    elif kind == "imul_str":
        h *= "2"
    elif kind == "imul_factor_square_overflows":
        if np.dtype(h.dtype).kind != "i" or not np.any(np.asarray(h.errors2) > 0):
            return NotImplemented
        h *= 2 ** 31  # contents * 2**31 fit int64, squared errors * 2**62 do not
    elif kind == "idiv_zero":
        h /= [0, 0.0, np.float64(0.0), np.int64(0)][arg % 4]
    elif kind == "fill_nonscalar":
        if nd != 1:
            return NotImplemented
        h.fill([0.5, 1.5])
    elif kind == "fill_wrong_length":
        if nd == 1:
            return NotImplemented
        h.fill([0.5] * (nd + 1) if arg % 2 else [0.5] * (nd - 1))
    elif kind == "fill_str_weight":
        h.fill(0.5 if nd == 1 else [0.5] * nd, "heavy")
    elif kind == "fill_grow_then_too_short":
        if nd == 1 or not h.is_adaptive():
            return NotImplemented
        far = 9.5 + arg % 4 if arg % 2 else -4.5 - arg % 3
        h.fill([far] * (nd - 1))  # the first axes must grow, the missing coordinate makes the call raise
    elif kind == "fill_grow_then_none_coordinate":
        if nd == 1 or not h.is_adaptive():
            return NotImplemented
        far = 9.5 + arg % 4 if arg % 2 else -4.5 - arg % 3
        h.fill([far] * (nd - 1) + [None])
    elif kind == "fill_grow_then_str_weight":
        if not h.is_adaptive():
            return NotImplemented
        far = 9.5 + arg % 4 if arg % 2 else -4.5 - arg % 3
        h.fill(far if nd == 1 else [far] * nd, "heavy")
    elif kind == "fill_weight_too_large_for_dtype":
        if np.dtype(h.dtype).kind != "i":
            return NotImplemented
        h.fill(lo_inside(h), 10 ** 10)  # its square does not fit int64
    elif kind == "fill_n_weight_too_large_for_dtype":
        if np.dtype(h.dtype).kind != "i":
            return NotImplemented
        v = lo_inside(h)
        h.fill_n([v] if nd == 1 else [v], weights=[10 ** 19 * 10])  # not representable as int64
    elif kind == "fill_n_wrong_rank":
        if nd == 1:
            return NotImplemented  # documented: a 1-D histogram flattens any input
        h.fill_n(np.ones((2, nd, 2)) if arg % 2 else np.ones(3))
    elif kind == "fill_n_wrong_columns":
        if nd == 1:
            return NotImplemented
        h.fill_n(np.ones((3, nd + 1)) * 0.5)
    elif kind == "fill_n_weights_wrong_length":
        data = np.ones((3, nd)) * 0.5
        h.fill_n(data[:, 0] if nd == 1 else data, weights=[1.0, 2.0])
    elif kind in ("fill_n_bulk_weights_too_short", "fill_n_bulk_weights_too_long"):
        # thousands of rows (chunked implementations must not add the first chunks before noticing)
        n_rows = 5000 + (arg % 3) * 2500
        data = (np.arange(n_rows * nd, dtype=float).reshape(n_rows, nd) % 16) * 0.25
        n_w = n_rows - 700 if kind.endswith("short") else n_rows + 7
        kw = {"weights": np.ones(n_w) * 0.5}
        if (arg >> 2) % 2:
            kw["dropna"] = False
        h.fill_n(data[:, 0] if nd == 1 else data, **kw)
    elif kind == "fill_n_weights_str":
        data = np.ones((2, nd)) * 0.5
        h.fill_n(data[:, 0] if nd == 1 else data, weights=["a", "b"])
    elif kind == "fill_n_values_str":
        h.fill_n(["a", "b"] if nd == 1 else [["a"] * nd, ["b"] * nd])
    elif kind == "fill_n_grow_then_bad_weights":
        if not h.is_adaptive():
            return NotImplemented
        data = np.ones((3, nd)) * (9.25 + arg % 4)
        h.fill_n(data[:, 0] if nd == 1 else data, weights=[1.0, 2.0])
    elif kind == "dtype_complex":
        h.set_dtype(np.complex128)
    elif kind == "dtype_str":
        h.set_dtype("U5")
    elif kind == "dtype_object":
        h.set_dtype(object)
    elif kind in ("dtype_lossy_int", "dtype_setter_lossy"):
        f = np.asarray(h.frequencies, dtype=np.float64)
        e = np.asarray(h.errors2, dtype=np.float64)
        if not (np.any(f != np.floor(f)) or np.any(e != np.floor(e))):
            return NotImplemented
        if kind == "dtype_lossy_int":
            h.set_dtype(np.int64)
        else:
            h.dtype = np.int32
    elif kind == "dtype_too_narrow":
        f = np.asarray(h.frequencies, dtype=np.float64)
        e = np.asarray(h.errors2, dtype=np.float64)
        top = max(f.max(initial=0), e.max(initial=0))
        # every type that cannot hold the largest content or squared error (often only the squared errors are too big)
        targets = [t for t, lim in ((np.int16, 32767), (np.float16, 65504), (np.int32, 2 ** 31 - 1)) if top > lim]
        if not targets or not np.all(np.isfinite(f)) or not np.all(np.isfinite(e)):
            return NotImplemented
        if (arg >> 4) % 2:
            h.dtype = targets[arg % len(targets)]
        else:
            h.set_dtype(targets[arg % len(targets)])
    elif kind == "projection_bad_index":
        if nd == 1:
            return NotImplemented
        h.projection(nd + 3)
    elif kind == "projection_bad_name":
        if nd == 1:
            return NotImplemented
        h.projection("no-such-axis")
    elif kind == "projection_bad_type":
        if nd == 1:
            return NotImplemented
        h.projection(1.5)
    elif kind == "merge_bad_axis":
        h.merge_bins(2, axis=nd + 2, inplace=True)
    elif kind == "select_bad_axis":
        h.select(nd + 2, 0)
    elif kind == "partial_normalize_bad_axis":
        if type(h).__name__ != "Histogram2D":
            return NotImplemented
        h.partial_normalize(5, inplace=True)
    elif kind == "accumulate_bad_axis":
        if nd == 1:
            return NotImplemented
        h.accumulate(nd + 2)
    elif kind == "find_bin_bad_axis":
        h.find_bin(0.5, axis=nd + 2)
    elif kind == "index_reversed_slice":
        h[::-1]
    elif kind == "index_too_many":
        if nd == 1:
            return NotImplemented
        h[(0,) * (nd + 1)]
    elif kind == "index_out_of_range":
        h[99] if nd == 1 else h[(99,) * nd]
    elif kind == "index_wrong_mask":
        if nd != 1:
            return NotImplemented
        h[np.ones(h.bin_count + 2, dtype=bool)]
    elif kind == "merge_non_integral":
        h.merge_bins(1.5, inplace=True)
    elif kind == "merge_zero":
        h.merge_bins(0, inplace=True)
    elif kind == "merge_across_gap":
        gapped = [ax for ax, b in enumerate(h.binnings) if not bool(b.is_consecutive())]
        if not gapped:
            return NotImplemented
        h.merge_bins(2, axis=gapped[0], inplace=True)
    elif kind == "merge_all_axes_across_gap":
        gapped = [ax for ax, b in enumerate(h.binnings) if not bool(b.is_consecutive())]
        if not gapped or nd == 1 or gapped[0] == 0:
            return NotImplemented
        h.merge_bins(2, inplace=True)  # axis 0 can be merged, a later axis cannot
    elif kind == "set_frequencies_wrong_shape":
        h.frequencies = np.ones(tuple(s + 1 for s in shape))
    elif kind == "set_frequencies_negative":
        h.frequencies = negative_somewhere(h.frequencies, arg)
    elif kind == "set_errors2_wrong_shape":
        h.errors2 = np.ones(tuple(s + 1 for s in shape))
    elif kind == "set_errors2_negative":
        h.errors2 = negative_somewhere(h.errors2, arg)
    elif kind == "collection_other_binning":
        if nd != 1:
            return NotImplemented
        HistogramCollection(h, Histogram1D(StaticBinning(np.asarray(h.bins, dtype=float) + 0.5)))
    elif kind == "collection_add_other_binning":
        if nd != 1:
            return NotImplemented
        HistogramCollection(h).add(Histogram1D(StaticBinning(np.asarray(h.bins, dtype=float) + 0.5)))
    elif kind == "set_adaptive_on_static":
        if all(b.adaptive_allowed for b in h.binnings):
            return NotImplemented
        h.set_adaptive(True)
    elif kind in ("collection_create_bad_weights", "collection_create_bad_values"):
        if nd != 1:
            return NotImplemented
        coll = HistogramCollection(h)
        names_before = [m.name for m in coll.histograms]
        try:
            if kind.endswith("weights"):
                coll.create("late", [lo_inside(h)] * 3, weights=[1.0, 2.0])
            else:
                coll.create("late", ["a", "b"])
        except Exception as exc:
            names_after = [m.name for m in coll.histograms]
            if names_after != names_before:
                raise LeftBehind(f"HistogramCollection.create raised {exc!r} but the collection now holds "
                                 f"{names_after} (was {names_before})") from exc
            raise
    else:
        return NotImplemented
    return None


class LeftBehind(Exception):
    """A refused call that nevertheless changed what a collection records."""


def lo_inside(h):
    v = [float(np.asarray(b.bins)[0, 0]) + 1e-3 for b in h.binnings]
    return v[0] if h.ndim == 1 else v


# ----------------------------------------------------------------------------
# oracle
# ----------------------------------------------------------------------------
def unchanged_per_interval(ctx, before, before_missed, h, label, fam, untouched=False):
    """Contents / errors2 per bin interval and missed are numerically what they were."""
    rule = "C18/failed-op-changes-nothing" if not untouched else "C18/only-own-operations-change-a-histogram"
    tag = "changed-after-raise" if not untouched else "changed-without-operation"
    verb = "raised" if not untouched else "did not operate on this histogram"
    cur = hist_arrays(h)
    exp_f, exp_e, lost = carry_over(before, cur[0])
    if lost:
        ctx.violation(rule, f"C18/{tag}/{label}/interval-lost",
                      f"{label} {verb}, but interval {lost[0]} that held content no longer exists ({fam})")
    f = np.asarray(cur[1], dtype=np.float64)
    e = np.asarray(cur[2], dtype=np.float64)
    from sim.oracle import chaos

    if chaos() or not np.array_equal(exp_f, f, equal_nan=True):
        ctx.violation(rule, f"C18/{tag}/{label}/contents",
                      f"{label} {verb}, but contents changed: expected vs got {first_diff(exp_f, f)} ({fam})")
    if chaos() or not np.array_equal(exp_e, e, equal_nan=True):
        ctx.violation(rule, f"C18/{tag}/{label}/errors2",
                      f"{label} {verb}, but errors2 changed: expected vs got {first_diff(exp_e, e)} ({fam})")
    m = missed_tuple(h)
    if chaos() or not np.array_equal(np.asarray(before_missed), np.asarray(m), equal_nan=True):
        ctx.violation(rule, f"C18/{tag}/{label}/missed",
                      f"{label} {verb}, but missed changed from {before_missed} to {m} ({fam})")


def invariants(ctx, h, what, fam):
    probs = wellformed_problems(h)
    if probs:
        ctx.violation("C18/well-formed", f"C18/malformed/{what}", f"after {what}: {probs} ({fam})")
    for k, o in enumerate(KEPT.get(id(h), ())):
        probs = wellformed_problems(o)
        if probs:
            ctx.violation("C18/well-formed", f"C18/malformed/kept-operand-or-sum/{what}",
                          f"after {what} on the node: histogram {k} kept from an earlier addition (an operand / a "
                          f"sum of the node) is malformed: {probs} ({fam})")
    f = np.asarray(h.frequencies)
    if f.size and np.any(f < 0):
        ctx.violation("C18/non-negative", f"C18/negative-content/{what}",
                      f"after {what}: contents {f.tolist()} contain a negative value with free arithmetics off ({fam})"[:800])


def execute(plan, ctx):
    cfg = plan["config"]
    fam = cfg["family"]
    ok, node = attempt(make_node, cfg)
    ok2, twin = attempt(make_node, cfg)
    if not (ok and ok2):
        ctx.probe("setup_failed")
        return
    ctx.state(fam, cfg["prefill"])
    KEPT.clear()
    raised_any = False
    grown = False
    twin_comparable = True
    for step, op in enumerate(plan["ops"]):
        ctx.step = step
        ctx.advance()
        before = hist_arrays(node)
        before_missed = missed_tuple(node)
        shape0 = node.shape
        if op["op"] == "valid":
            if op["kind"] == "merge" and any(
                    not np.array_equal(np.asarray(x.bins), np.asarray(y.bins)) for x, y in zip(node.binnings, twin.binnings)):
                # a refused call legitimately left extra empty bins on the node: merging pairs of bins would then
                # pair other intervals than on the twin, which says nothing about physt
                ctx.probe("merge_skipped_after_refused_growth")
                continue
            ok, res = attempt(apply_valid, node, op["kind"], op["arg"])
            if ok and res is NotImplemented:
                continue
            ok_t, res_t = attempt(apply_valid, twin, op["kind"], op["arg"])
            if ok_t and res_t is NotImplemented:
                # applicable to the node but not to the twin (their bins legitimately differ after a refused
                # growth): the two histories have parted, no verdict from the comparison
                ctx.probe("twin_divergence_after_refused_growth")
                twin_comparable = False
            ctx.ev("node", f"valid:{op['kind']}", None, "ok" if ok else exc_tag(res))
            ctx.abstract("valid", op["kind"], fam, ok)
            if node.shape != shape0:
                grown = True
            if not ok:
                ctx.fault("valid_op_raised")
                unchanged_per_interval(ctx, before, before_missed, node, f"valid:{op['kind']}", fam)
            elif res == "node-untouched":
                # Whether a derived object is independent of the node is C12's statement, not this one: here the
                # step only diversifies the histories (a node that shares memory with something else must still
                # obey "a raising call changes nothing"); a change is counted, not reported.
                ctx.fault("derived_object_filled")
                cur_ = hist_arrays(node)
                if not (np.array_equal(np.asarray(cur_[1], dtype=float), np.asarray(before[1], dtype=float), equal_nan=True)):
                    ctx.probe("node_changed_by_fill_of_derived_object(C12)")
            bins_differ = any(not np.array_equal(np.asarray(x.bins), np.asarray(y.bins))
                              for x, y in zip(node.binnings, twin.binnings)) if ok != ok_t else False
            if ok != ok_t and bins_differ:
                # a refused adaptive fill legitimately left extra empty bins on the node: an operation whose
                # acceptance depends on the bins (adding a batch-built operand that has grown differently) may then
                # be accepted on one side and refused on the other - no verdict about physt
                ctx.probe("twin_divergence_after_refused_growth")
                twin_comparable = False  # the two histories have legitimately parted: no final comparison either
            elif ok != ok_t:
                ctx.violation("C18/usable-after-fault", f"C18/diverges-from-twin/{op['kind']}",
                              f"valid operation {op['kind']} {'succeeded' if ok else 'raised ' + repr(res)} on the node that saw "
                              f"invalid calls but {'succeeded' if ok_t else 'raised ' + repr(res_t)} on its twin ({fam})")
            invariants(ctx, node, f"valid:{op['kind']}", fam)
        else:
            kind = op["kind"]
            ok, res = attempt(apply_invalid, node, kind, op["arg"])
            if ok and res is NotImplemented:
                continue
            ctx.ev("node", f"invalid:{kind}", None, "accepted" if ok else exc_tag(res))
            ctx.abstract("invalid", kind, fam, ok)
            invariants(ctx, node, f"invalid:{kind}", fam)
            if ok:
                # not refused: only the sign clause demands refusal (checked by invariants above)
                ctx.probe(f"invalid_call_accepted:{kind}")
                return
            ctx.fault("invalid:" + kind)
            if isinstance(res, LeftBehind):
                ctx.violation("C18/failed-op-changes-nothing", f"C18/changed-after-raise/invalid:{kind}/collection-members",
                              str(res))
            if grown:
                ctx.fault("fault_after_growth")
            raised_any = True
            unchanged_per_interval(ctx, before, before_missed, node, f"invalid:{kind}", fam)
    # twin replica: agree on every interval with content; all other intervals are empty; missed agree
    if raised_any and twin_comparable:
        a, b = hist_arrays(node), hist_arrays(twin)
        exp_f, exp_e, lost = carry_over(b, a[0])
        if lost:
            ctx.violation("C18/twin", "C18/twin-differs/interval-missing",
                          f"the twin holds content on {lost[0]} which the node that saw invalid calls does not have ({fam})")
        # extra empty bins change numpy's pairwise summation order inside later operations (normalize divides by
        # frequencies.sum()): agreement with the twin is judged to 1e-12 relative, not bit for bit
        if not (np.allclose(exp_f, np.asarray(a[1], dtype=np.float64), rtol=1e-12, atol=0, equal_nan=True)
                and np.allclose(exp_e, np.asarray(a[2], dtype=np.float64), rtol=1e-12, atol=0, equal_nan=True)):
            ctx.violation("C18/twin", "C18/twin-differs/contents",
                          f"node that saw invalid calls differs from its twin that received only the valid operations: "
                          f"{first_diff(exp_f, a[1])} ({fam})")
        if not np.allclose(np.asarray(missed_tuple(node)), np.asarray(missed_tuple(twin)), rtol=1e-12, atol=0, equal_nan=True):
            ctx.violation("C18/twin", "C18/twin-differs/missed",
                          f"missed {missed_tuple(node)} vs twin {missed_tuple(twin)} ({fam})")
