"""Simulation core: per-run context (event log, digest, counters, probes),
violations, plan (= replay file) encoding.

One run = generate(rng(seed)) -> plan ; execute(plan, ctx).  `execute` is a pure
function of the plan and the code under test: every choice (data, delivery
order, batch sizes, fault positions, which actor runs next, pre-emption
points) is written into the plan by `generate`, which draws only from the one
`random.Random(seed)` it is given.  Nothing here reads a clock or draws from
the PRNG while logging.
"""
from __future__ import annotations

import hashlib
import json
import math
import random
import traceback
import warnings
from collections import Counter
from dataclasses import dataclass, field

FORMAT = "histsim-replay/1"


class StopRun(Exception):
    """Raised by ctx.violation(stop=True) to end the current run."""


class HarnessError(Exception):
    """A defect of the harness itself (never a VIOLATION, never exit 0)."""


@dataclass
class Violation:
    property: str
    rule: str
    signature: str
    message: str
    step: int

    def to_json(self):
        return {
            "property": self.property,
            "rule": self.rule,
            "signature": self.signature,
            "message": self.message,
            "step": self.step,
        }


@dataclass
class Ctx:
    """Everything one simulated run records."""

    prop: str
    scenario: str = ""
    seed: int = 0
    events: list = field(default_factory=list)
    violations: list = field(default_factory=list)
    faults: Counter = field(default_factory=Counter)
    probes: Counter = field(default_factory=Counter)
    states: set = field(default_factory=set)
    shape: list = field(default_factory=list)  # abstract execution (op kind, class, fault kind)
    tick: int = 0
    step: int = -1
    nontrivial: int = 0  # count of faults / reorderings that make the run non-trivial

    # -- logging (never draws randomness, never reads clocks) ------------------
    def ev(self, actor, op, node=None, outcome="ok"):
        self.events.append((len(self.events), self.tick, actor, op, node, outcome))

    def fault(self, kind, n=1):
        self.faults[kind] += n
        self.nontrivial += n

    def probe(self, name, n=1):
        self.probes[name] += n

    def state(self, *key):
        self.states.add(hash_small(key))

    def abstract(self, *key):
        self.shape.append(key)

    def advance(self, ticks=1):
        self.tick += ticks

    # -- verdicts ----------------------------------------------------------------
    def violation(self, rule, signature, message, stop=True):
        self.violations.append(
            Violation(self.prop, rule, signature, str(message)[:2000], self.step)
        )
        self.ev("oracle", "violation", None, signature)
        if stop:
            raise StopRun()

    def digest(self):
        return hashlib.sha256(repr(self.events).encode()).hexdigest()

    def shape_hash(self):
        return hash_small(tuple(self.shape))


def hash_small(obj) -> int:
    """Stable 64-bit hash of a repr()-able structure (independent of PYTHONHASHSEED)."""
    return int.from_bytes(hashlib.blake2b(repr(obj).encode(), digest_size=8).digest(), "big")


# ----------------------------------------------------------------------------
# plan <-> JSON.  Python's float repr round-trips exactly and json accepts
# NaN/Infinity, so plain JSON is already a loss-free encoding of every float in
# a plan (DESIGN 3.1 said float.hex(); repr is equally exact and readable).
# ----------------------------------------------------------------------------
def dump_plan(plan) -> str:
    return json.dumps(plan, indent=None, separators=(",", ":"), allow_nan=True)


def load_plan(text):
    return json.loads(text)


def exc_site(exc: BaseException) -> str:
    """Innermost physt frame (module.function) of an exception - part of signatures.

    Line numbers are deliberately left out so that unrelated edits do not
    change a signature.
    """
    site = "?"
    for fs in traceback.extract_tb(exc.__traceback__):
        fn = fs.filename.replace("\\", "/")
        if "/physt/" in fn:
            mod = fn.rsplit("/physt/", 1)[1].rsplit(".", 1)[0].replace("/", ".")
            site = f"{mod}.{fs.name}"
    return site


def exc_tag(exc: BaseException) -> str:
    """ExceptionType(message class)@innermost physt function - identifies a failing call site."""
    import re

    msg = re.sub(r"[0-9]+(\.[0-9]+)?(e[+-]?[0-9]+)?", "#", str(exc))
    msg = re.sub(r"\s+", " ", msg)[:48].strip()
    return f"{type(exc).__name__}({msg})@{exc_site(exc)}"


def attempt(fn, *args, **kwargs):
    """Run a call into physt; returns (True, result) or (False, exception).

    Only `Exception` is caught: KeyboardInterrupt/SystemExit propagate.
    """
    try:
        with warnings.catch_warnings():
            warnings.simplefilter("ignore")
            return True, fn(*args, **kwargs)
    except StopRun:
        raise
    except HarnessError:
        raise
    except Exception as exc:  # noqa: BLE001 - the system under test may raise anything
        return False, exc


def run_plan(module, plan, *, prop=None) -> Ctx:
    """Execute one plan under a fresh context; StopRun ends it normally."""
    ctx = Ctx(prop=prop or plan.get("property", module.PROPERTY),
              scenario=plan.get("scenario", ""), seed=plan.get("seed", 0))
    from . import oracle

    oracle.chaos_reset()
    try:
        with warnings.catch_warnings():
            warnings.simplefilter("ignore")
            module.execute(plan, ctx)
    except StopRun:
        pass
    return ctx


def deep_tier(rng) -> bool:
    """Thorough tier: about a third of the runs use deeper bounds (longer histories, more entries, more replicas).
    Draws from the run's PRNG only in the thorough tier, so quick-tier plans are unaffected."""
    import os

    return os.environ.get("HISTSIM_TIER") == "thorough" and rng.random() < 0.35


def bulk_tier(rng) -> bool:
    """A few runs per hundred are *bulk* runs: hundreds to thousands of entries per batch, dozens to hundreds of bins,
    long operation chains - code paths that depend on a size threshold (vectorised / chunked fast paths, caches)
    are not reachable by the small scenarios that make up the rest of the swarm."""
    import os

    return rng.random() < (0.08 if os.environ.get("HISTSIM_TIER") == "thorough" else 0.03)


def make_rng(seed: int) -> random.Random:
    return random.Random(seed)


def run_seed(base_seed: int, index: int) -> int:
    return base_seed * 1_000_003 + index


def isnan(x) -> bool:
    try:
        return math.isnan(x)
    except TypeError:
        return False
