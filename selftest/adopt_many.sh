#!/bin/bash
# adopt_many.sh tag  : lines "PROP|needs" on stdin
T=$1
while IFS='|' read -r P NEEDS; do
  out=$("$(dirname "$0")"/adopt.sh $P $T "$NEEDS" 2>&1 | grep -v "WARNING conda")
  conf=$(echo "$out" | grep -c "CONFIRMED" ); nconf=$(echo "$out" | grep -c "NOT CONFIRMED")
  rc=$(echo "$out" | grep '"rc"' | head -1 | tr -dc '0-9')
  nsig=$(echo "$out" | grep -c "C[0-9][0-9]/")
  echo "$P-$T confirmed=$((conf-nconf)) check_rc=$rc signatures=$nsig"
  echo "$out" | grep "C[0-9][0-9]/" | head -3 | cut -c1-160
done
