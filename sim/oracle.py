"""Oracle helpers: public snapshots, interval maps, exact/tolerant comparison,
well-formedness.  Everything reads only public attributes of physt objects.
"""
from __future__ import annotations

import copy
import math
import struct

import numpy as np

from physt.histogram_collection import HistogramCollection


# ----------------------------------------------------------------------------
# snapshots
# ----------------------------------------------------------------------------
def arr_key(a):
    a = np.asarray(a)
    c = np.ascontiguousarray(a)
    if a.dtype == np.longdouble and a.dtype.itemsize == 16:
        # x86 80-bit extended precision stored in 16 bytes: the 6 padding bytes are uninitialised
        # memory and would make snapshots (and digests) nondeterministic
        raw = c.view(np.uint8).reshape(-1, 16).copy()
        raw[:, 10:] = 0
        return (a.dtype.str, tuple(a.shape), raw.tobytes())
    return (a.dtype.str, tuple(a.shape), c.tobytes())


def fbits(x):
    """Bit pattern of a float-like scalar; all NaNs map to one value."""
    try:
        x = float(x)
    except (TypeError, ValueError):
        return ("nonfloat", repr(x))
    if math.isnan(x):
        return "nan"
    return struct.pack("<d", x)


def binning_key(b):
    return (
        type(b).__name__,
        arr_key(np.asarray(b.bins, dtype=float)),
        bool(b.is_adaptive()),
        bool(b.includes_right_edge),
    )


STAT_FIELDS = ("sum", "sum2", "min", "max", "weight", "median")


def stats_key(h):
    try:
        st = h.statistics
    except AttributeError:
        return "MISSING"
    if st is None:
        return None
    return tuple(fbits(getattr(st, f)) for f in STAT_FIELDS)


def meta_key(h):
    return repr(sorted((str(k), repr(v)) for k, v in h.meta_data.items()))


def snap(h):
    """Public snapshot of a histogram or collection (deep, immutable)."""
    if isinstance(h, HistogramCollection):
        return {
            "cls": "HistogramCollection",
            "name": h.name,
            "title": h.title,
            "binning": binning_key(h.binning),
            "members": tuple(tuple(sorted(snap(m).items())) for m in h.histograms),
        }
    d = {
        "cls": type(h).__name__,
        "axes": tuple(binning_key(b) for b in h.binnings),
        "freq": arr_key(h.frequencies),
        "err2": arr_key(h.errors2),
        "dtype": str(np.dtype(h.dtype)),
        "keep_missed": bool(h.keep_missed),
        "meta": meta_key(h),
    }
    if h.ndim == 1 and hasattr(h, "underflow"):
        d["missed"] = (fbits(h.underflow), fbits(h.overflow), fbits(h.inner_missed))
        d["stats"] = stats_key(h)
    else:
        d["missed"] = (fbits(h.missed),)
    return d


def snap_diff(a, b, ignore=()):
    """Names of snapshot fields that differ."""
    keys = sorted(set(a) | set(b))
    if _chaos():
        return [k for k in keys if k not in ignore][:1]
    return [k for k in keys if k not in ignore and a.get(k, "<absent>") != b.get(k, "<absent>")]


# ----------------------------------------------------------------------------
# numeric views
# ----------------------------------------------------------------------------
def missed_tuple(h):
    """Numeric missed bookkeeping: 1-D (underflow, overflow, inner) else (missed,)."""
    if h.ndim == 1 and hasattr(h, "underflow"):
        return (float(h.underflow), float(h.overflow), float(h.inner_missed))
    return (float(h.missed),)


def interval_map(h):
    """{per-axis (left, right) tuple -> (content, error2)} keyed by the exact float edges."""
    bins = [np.asarray(b.bins, dtype=float) for b in h.binnings]
    f = np.asarray(h.frequencies)
    e = np.asarray(h.errors2)
    out = {}
    for idx in np.ndindex(*f.shape):
        key = tuple((float(bins[ax][i, 0]), float(bins[ax][i, 1])) for ax, i in enumerate(idx))
        out[key] = (f[idx].item(), e[idx].item())
    return out


def wellformed_problems(h):
    """List of shape/sign problems (empty = well-formed).  Sign of contents is
    only judged by callers that know weights were non-negative."""
    probs = []
    try:
        shape = tuple(int(b.bin_count) for b in h.binnings)
        f = np.asarray(h.frequencies)
        e = np.asarray(h.errors2)
        if tuple(f.shape) != shape:
            probs.append(f"frequencies.shape {tuple(f.shape)} != bins {shape}")
        if tuple(e.shape) != shape:
            probs.append(f"errors2.shape {tuple(e.shape)} != bins {shape}")
        for ax, b in enumerate(h.binnings):
            bb = np.asarray(b.bins)
            if bb.shape != (shape[ax], 2):
                probs.append(f"axis {ax} bins shape {bb.shape} != ({shape[ax]}, 2)")
        if e.size and np.any(e < 0):
            probs.append("negative errors2")
    except Exception as exc:  # noqa: BLE001 - a malformed object may raise anywhere
        probs.append(f"inspection raised {type(exc).__name__}: {exc}")
    return probs


# ----------------------------------------------------------------------------
# comparison
# ----------------------------------------------------------------------------
# Self-test only (selftest/chaos.py): with HISTSIM_CHAOS=<n> every n-th comparison of a run reports "different",
# so that every violation branch of every check (message formatting, signature building, minimisation, replay)
# is executed on the unchanged tree.  Deterministic per run (the counter is reset by core.run_plan).
import os as _os

_CHAOS = int(_os.environ.get("HISTSIM_CHAOS", "0") or 0)
_chaos_n = [0]


def chaos_reset():
    _chaos_n[0] = 0


def _chaos():
    if not _CHAOS:
        return False
    _chaos_n[0] += 1
    return _chaos_n[0] % _CHAOS == 0


def chaos():
    """Public hook for check-local comparison helpers (self-test only)."""
    return _chaos()


def num_equal(a, b, *, exact, scale=0.0):
    """a == b (NaN == NaN); tolerant: |a-b| <= 1e-10*scale + 1e-300."""
    if _chaos():
        return False
    a = float(a)
    b = float(b)
    if math.isnan(a) or math.isnan(b):
        return math.isnan(a) and math.isnan(b)
    if a == b:
        return True
    if exact:
        return False
    return abs(a - b) <= 1e-10 * scale + 1e-300


def arrays_equal(a, b, *, exact, scale=0.0):
    if _chaos():
        return False
    a = np.asarray(a, dtype=np.float64) if np.asarray(a).dtype != np.float128 else np.asarray(a)
    b = np.asarray(b, dtype=np.float64) if np.asarray(b).dtype != np.float128 else np.asarray(b)
    if a.shape != b.shape:
        return False
    if exact:
        return bool(np.array_equal(a, b, equal_nan=True))
    both_nan = np.isnan(a) & np.isnan(b)
    ok = both_nan | (np.abs(a - b) <= 1e-10 * scale + 1e-300)
    return bool(np.all(ok))


def first_diff(a, b):
    a = np.asarray(a, dtype=float)
    b = np.asarray(b, dtype=float)
    if a.shape != b.shape:
        return f"shape {a.shape} vs {b.shape}"
    for idx in np.ndindex(*a.shape):
        x, y = a[idx], b[idx]
        if not (x == y or (math.isnan(x) and math.isnan(y))):
            return f"at {idx}: {x!r} vs {y!r}"
    return "equal"


def deep(obj):
    return copy.deepcopy(obj)


# ----------------------------------------------------------------------------
# vectorised interval alignment (same meaning as comparing interval maps)
# ----------------------------------------------------------------------------
def hist_arrays(h):
    """(per-axis (n,2) float bins, frequencies, errors2) copied out of a histogram."""
    return ([np.array(b.bins, dtype=float).reshape(-1, 2) for b in h.binnings],
            np.array(h.frequencies), np.array(h.errors2))


def carry_over(old, new_bins):
    """Move old contents to the positions of the *same intervals* in a new bin layout.

    Returns (expected_f, expected_e, lost) where lost is a list of (axis, old interval)
    whose interval no longer exists although it held content.  Intervals are matched
    on exactly equal (left, right) edges.
    """
    old_bins, f, e = old
    shape = tuple(b.shape[0] for b in new_bins)
    lost = []
    f = np.asarray(f, dtype=np.float64)
    e = np.asarray(e, dtype=np.float64)
    src_sel = []
    dst_sel = []
    for ax, (ob, nb) in enumerate(zip(old_bins, new_bins)):
        if ob.shape[0] == 0:
            src_sel.append(np.zeros(0, dtype=int))
            dst_sel.append(np.zeros(0, dtype=int))
            continue
        if nb.shape[0] == 0:
            pos = np.zeros(ob.shape[0], dtype=int)
            match = np.zeros(ob.shape[0], dtype=bool)
        else:
            pos = np.searchsorted(nb[:, 0], ob[:, 0], side="left")
            pos_c = np.clip(pos, 0, nb.shape[0] - 1)
            match = (pos < nb.shape[0]) & (nb[pos_c, 0] == ob[:, 0]) & (nb[pos_c, 1] == ob[:, 1])
            pos = pos_c
        for i in np.nonzero(~match)[0]:
            sl = [slice(None)] * f.ndim
            sl[ax] = int(i)
            if f.size and (np.any(f[tuple(sl)] != 0) or np.any(e[tuple(sl)] != 0)):
                lost.append((ax, (float(ob[i, 0]), float(ob[i, 1]))))
        src_sel.append(np.nonzero(match)[0])
        dst_sel.append(pos[match])
    exp_f = np.zeros(shape, dtype=np.float64)
    exp_e = np.zeros(shape, dtype=np.float64)
    if f.size and all(len(x) for x in src_sel):
        exp_f[np.ix_(*dst_sel)] = f[np.ix_(*src_sel)]
        exp_e[np.ix_(*dst_sel)] = e[np.ix_(*src_sel)]
    return exp_f, exp_e, lost


def locate(bins_per_axis, vals):
    """Index tuple of the cell whose intervals contain the value ([l, r) per axis), or None."""
    idx = []
    for b, v in zip(bins_per_axis, vals):
        if b.shape[0] == 0:
            return None
        j = int(np.searchsorted(b[:, 0], v, side="right")) - 1
        if j < 0 or not (b[j, 0] <= v < b[j, 1]):
            return None
        idx.append(j)
    return tuple(idx)
