#!/bin/bash
# adopt.sh <PROP> <tag> "<needs>"  : copy a sub-agent's result from /tmp/wt-PROP-tag into /verif/seeded/PROP-tag, verify, run target check
V=$(cd "$(dirname "$0")/.." && pwd)
P=$1; T=$2; NEEDS=$3; WT=/tmp/wt-$P-$T; D=$V/seeded/$P-$T
mkdir -p $D
( cd $WT && git diff -- src > $D/patch.diff )
cp $WT/demo.py $D/demo.py
python3 - "$P" "$T" "$NEEDS" "$D" <<'PY'
import json,sys
p,t,needs,d=sys.argv[1:5]
json.dump({"id":f"{p}-{t}","property":p,"needs":needs,"demo":"demo.py","origin":"fresh sub-agent given only the property text and a scratch worktree",
 "verified_with":"selftest/seeded.py verify (patch applies to /repo HEAD copy, pinned suite passes with it, demo exits !=0 with and 0 without the change)"},
 open(f"{d}/meta.json","w"), indent=1)
PY
cd $V && /venv/bin/python selftest/seeded.py verify $P-$T 2>&1 | grep -v "WARNING conda" && /venv/bin/python selftest/seeded.py run $P-$T 2>&1 | grep -v "WARNING conda" | head -30
