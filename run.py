#!/venv/bin/python
"""histsim driver.

  run.py --property C03 --tier quick          run a check (exit 0 / 1 / 2)
  run.py --replay /verif/replays/x.json       re-execute a replay file (exit 1 if it reproduces)

Internal sub-commands (fresh interpreters, so that environment defaults that
physt reads at import time and PYTHONHASHSEED are under the driver's control):
  --worker     run one partition of a batch on a fork pool, write a result pickle
  --digests    print run digests for a list of run indices (determinism self-check)
  --minimise   shrink a failing plan and write the replay file

Exit codes: 0 property held on everything explored (KNOWN-FINDING lines allowed),
1 at least one unlisted violation (VIOLATION lines), 2 harness failure.
"""
from __future__ import annotations

import argparse
import importlib
import json
import os
import pickle
import shutil
import subprocess
import sys
import tempfile
import time
import traceback

VERIF = os.path.dirname(os.path.abspath(__file__))
if VERIF not in sys.path:
    sys.path.insert(0, VERIF)

PY = "/venv/bin/python"
CLAIMED = ["C03", "C04", "C05", "C06", "C08", "C12", "C13", "C14", "C15", "C18", "C19"]
DET_SAMPLE = 32           # runs per partition whose digests are cross-checked in a fresh interpreter
CHUNK = 100               # runs per pool task
KEEP_PER_SIG = 2          # failing plans kept per signature per chunk


def load_module(prop):
    import sim  # noqa: F401  (path setup)

    return importlib.import_module(f"checks.{prop.lower()}")


# ----------------------------------------------------------------------------
# pool side
# ----------------------------------------------------------------------------
_MODULE = None


def _run_chunk(args):
    """Execute runs [lo, hi) of a partition; return aggregated, picklable results."""
    import faulthandler
    from collections import Counter

    from sim.core import HarnessError, make_rng, run_plan, run_seed, dump_plan

    prop, base_seed, part, lo, hi, want_digests = args
    faulthandler.dump_traceback_later(600, exit=True)
    module = _MODULE or load_module(prop)
    res = {
        "runs": 0, "events": 0, "ticks": 0, "faults": Counter(), "probes": Counter(),
        "shapes": set(), "states": set(), "nontrivial_shapes": set(),
        "violations": {}, "vio_runs": 0, "samples": [], "digests": {}, "harness": [],
        "scenarios": Counter(),
    }
    for i in range(lo, hi):
        seed = run_seed(base_seed, i)
        try:
            plan = module.generate(make_rng(seed), seed, part)
            plan.setdefault("format", "histsim-replay/1")
            plan.setdefault("property", prop)
            plan["seed"] = seed
            plan["part"] = part
            ctx = run_plan(module, plan)
        except HarnessError as exc:
            res["harness"].append((seed, f"HarnessError: {exc}"))
            continue
        except Exception:  # noqa: BLE001
            res["harness"].append((seed, traceback.format_exc()))
            continue
        res["runs"] += 1
        res["events"] += len(ctx.events)
        res["ticks"] += ctx.tick
        res["faults"].update(ctx.faults)
        res["probes"].update(ctx.probes)
        res["scenarios"][plan.get("scenario", "?")] += 1
        sh = ctx.shape_hash()
        res["shapes"].add(sh)
        if ctx.nontrivial > 0:
            res["nontrivial_shapes"].add(sh)
        res["states"] |= ctx.states
        if want_digests and i < DET_SAMPLE:
            res["digests"][i] = ctx.digest()
        if len(res["samples"]) < 1 and i % CHUNK == 0:
            res["samples"].append(json.loads(dump_plan(plan)))
        if ctx.violations:
            res["vio_runs"] += 1
            for v in ctx.violations:
                lst = res["violations"].setdefault(v.signature, [])
                if len(lst) < KEEP_PER_SIG:
                    lst.append((v.to_json(), dump_plan(plan), {"lo": lo, "i": i}))
    faulthandler.cancel_dump_traceback_later()
    return res


def fork_map(tasks, workers, deadline, on_result, fn=None):
    """Run every task in a process forked for it alone (at most `workers` at a time), hand the results to on_result.

    One task = one *process history*: the runs of a chunk execute one after the other in a process image that has
    only imported the code, so whatever state the library carries from one run to the next (module-level caches,
    class attributes) is part of an exactly repeatable sequence and not of a worker's accidental past.
    Returns True when the deadline stopped the submission of tasks."""
    import select
    import signal

    fn = fn or _run_chunk
    pending = list(tasks)
    live = {}
    stopped = False
    try:
        while pending or live:
            while pending and len(live) < workers and time.monotonic() < deadline:
                task = pending.pop(0)
                rfd, wfd = os.pipe()
                sys.stdout.flush()
                sys.stderr.flush()
                pid = os.fork()
                if pid == 0:
                    code = 3
                    try:
                        os.close(rfd)
                        data = pickle.dumps(fn(task), protocol=4)
                        with os.fdopen(wfd, "wb") as f:
                            f.write(data)
                        code = 0
                    except BaseException:  # noqa: BLE001
                        traceback.print_exc()
                    finally:
                        sys.stderr.flush()
                        os._exit(code)
                os.close(wfd)
                live[rfd] = (pid, [], time.monotonic(), task)
            if not live:
                stopped = bool(pending)
                break
            ready, _, _ = select.select(list(live), [], [], 5.0)
            for fd in ready:
                block = os.read(fd, 1 << 20)
                if block:
                    live[fd][1].append(block)
                    continue
                pid, bufs, _t0, task = live.pop(fd)
                os.close(fd)
                _, status = os.waitpid(pid, 0)
                if status != 0 or not bufs:
                    raise RuntimeError(f"process for task {task[3:5]} ended with status {status} and "
                                       f"{sum(map(len, bufs))} bytes of result")
                on_result(pickle.loads(b"".join(bufs)))
            now = time.monotonic()
            for fd, (pid, _bufs, t0, task) in list(live.items()):
                if now - t0 > 900:
                    raise RuntimeError(f"task {task[3:5]} exceeded 900 s; aborting batch")
            if now >= deadline and pending:
                stopped = True
                pending = []
    finally:
        for fd, (pid, _bufs, _t0, _task) in live.items():
            try:
                os.kill(pid, signal.SIGKILL)
                os.waitpid(pid, 0)
                os.close(fd)
            except OSError:
                pass
    return stopped


def worker_main(a):
    """One partition inside this (fresh) interpreter: every chunk of runs in a process forked for it."""
    global _MODULE
    from collections import Counter

    _MODULE = load_module(a.property)
    from sim.paths import check_physt_location

    check_physt_location()
    tasks = []
    lo = a.start
    end = a.start + a.count
    while lo < end:
        hi = min(end, lo + CHUNK)
        tasks.append((a.property, a.seed, a.part, lo, hi, True))
        lo = hi
    total = {
        "runs": 0, "events": 0, "ticks": 0, "faults": Counter(), "probes": Counter(),
        "shapes": set(), "states": set(), "nontrivial_shapes": set(),
        "violations": {}, "vio_runs": 0, "samples": [], "digests": {}, "harness": [],
        "scenarios": Counter(), "stopped_early": False,
    }
    deadline = time.monotonic() + a.wall
    workers = max(1, a.workers)

    def merge(r):
        for k in ("runs", "events", "ticks", "vio_runs"):
            total[k] += r[k]
        for k in ("faults", "probes", "scenarios"):
            total[k].update(r[k])
        for k in ("shapes", "states", "nontrivial_shapes"):
            total[k] |= r[k]
        total["digests"].update(r["digests"])
        total["harness"] += r["harness"]
        if len(total["samples"]) < 3:
            total["samples"] += r["samples"][: 3 - len(total["samples"])]
        for sig, lst in r["violations"].items():
            # the representatives of a signature are its earliest runs, whatever order the chunks finish in
            cur = total["violations"].setdefault(sig, [])
            cur += lst
            cur.sort(key=lambda item: item[2]["i"])
            del cur[KEEP_PER_SIG:]

    total["stopped_early"] = fork_map(tasks, workers, deadline, merge)
    with open(a.out, "wb") as f:
        pickle.dump(total, f)
    return 0


def digests_main(a):
    from sim.core import make_rng, run_plan, run_seed

    module = load_module(a.property)
    out = {}
    for i in range(a.count):
        seed = run_seed(a.seed, i)
        plan = module.generate(make_rng(seed), seed, a.part)
        plan.setdefault("property", a.property)
        plan["seed"] = seed
        plan["part"] = a.part
        out[i] = run_plan(module, plan).digest()
        # twice in the same interpreter: first-vs-later execution must agree too
        plan2 = module.generate(make_rng(seed), seed, a.part)
        plan2.setdefault("property", a.property)
        plan2["seed"] = seed
        plan2["part"] = a.part
        d2 = run_plan(module, plan2).digest()
        if d2 != out[i]:
            out[i] = f"UNSTABLE:{out[i]}:{d2}"
    print(json.dumps(out))
    return 0


def minimise_main(a):
    from sim.core import dump_plan, load_plan
    from sim.shrink import minimise

    module = load_module(a.property)
    with open(a.minimise) as f:
        item = json.load(f)
    plan = load_plan(item["plan"])
    small = minimise(module, plan, item["violation"]["signature"],
                     max_exec=a.max_exec, max_wall=a.max_wall)
    small["expect"] = item["violation"]
    with open(a.out, "w") as f:
        f.write(dump_plan(small))
    return 0


def mkseq_main(a):
    """Write a replay file that holds a whole process history: the plans of runs [start, start+count) in order."""
    from sim.core import dump_plan, make_rng, run_seed

    module = load_module(a.property)
    with open(a.mkseq) as f:
        expect = json.load(f)["violation"]
    plans = []
    for i in range(a.start, a.start + a.count):
        seed = run_seed(a.seed, i)
        plan = module.generate(make_rng(seed), seed, a.part)
        plan.setdefault("format", "histsim-replay/1")
        plan.setdefault("property", a.property)
        plan["seed"] = seed
        plan["part"] = a.part
        plans.append(json.loads(dump_plan(plan)))
    doc = {"format": "histsim-replay-seq/1", "property": a.property, "part": a.part, "base_seed": a.seed,
           "run_indices": [a.start, a.start + a.count - 1],
           "note": "the violation needs the process history: these plans are executed one after the other in one "
                   "fresh process, the last one fails",
           "config": {"env": (plans[-1].get("config") or {}).get("env")} if plans else {},
           "plans": plans, "expect": expect}
    with open(a.out, "w") as f:
        json.dump(doc, f)
    return 0


def replay_main(path):
    from sim.core import load_plan, run_plan

    with open(path) as f:
        text = f.read()
    head = json.loads(text)
    if os.environ.get("HISTSIM_REPLAY_CHILD") != "1":
        # always in a process of its own with the environment the checks use (hash seed, the plan's own variables),
        # so that a replay by hand is the same execution as the one that was verified before reporting
        e = child_env((head.get("config") or {}).get("env"))
        e["HISTSIM_REPLAY_CHILD"] = "1"
        return subprocess.call([PY, os.path.join(VERIF, "run.py"), "--replay", path], env=e)
    if head.get("format") == "histsim-replay-seq/1":
        prop = head["property"]
        module = load_module(prop)
        ctx = None
        for plan in head["plans"]:
            ctx = run_plan(module, load_plan(json.dumps(plan)))
        sigs = [v.signature for v in ctx.violations] if ctx else []
        expect = (head.get("expect") or {}).get("signature")
        print(f"replay {path}: {len(head['plans'])} runs in sequence, last digest={ctx.digest() if ctx else None} "
              f"violations={sigs}")
        for v in (ctx.violations if ctx else []):
            print(f"  {v.signature}: {v.message}")
        if expect in sigs or (expect is None and sigs):
            print(f"VIOLATION property={prop} replay={path}")
            return 1
        print(f"replay did not reproduce expected signature {expect}")
        return 0 if not sigs else 1
    plan = load_plan(text)
    prop = plan["property"]
    module = load_module(prop)
    ctx = run_plan(module, plan)
    expect = (plan.get("expect") or {}).get("signature")
    sigs = [v.signature for v in ctx.violations]
    print(f"replay {path}: digest={ctx.digest()} violations={sigs}")
    for v in ctx.violations:
        print(f"  {v.signature}: {v.message}")
    if expect is not None:
        if expect in sigs:
            print(f"VIOLATION property={prop} replay={path}")
            return 1
        print(f"replay did not reproduce expected signature {expect}")
        return 0 if not sigs else 1
    if sigs:
        print(f"VIOLATION property={prop} replay={path}")
        return 1
    return 0


# ----------------------------------------------------------------------------
# driver side (never imports physt)
# ----------------------------------------------------------------------------
TIER_ENV = {"tier": "quick"}


def child_env(extra=None, hashseed="0"):
    e = dict(os.environ)
    e["PYTHONHASHSEED"] = hashseed
    e["HISTSIM_TIER"] = TIER_ENV["tier"]
    # single-threaded numerics: no BLAS / OpenMP thread pools in processes that fork (and no 16 x n threads)
    for var in ("OPENBLAS_NUM_THREADS", "OMP_NUM_THREADS", "MKL_NUM_THREADS", "NUMEXPR_NUM_THREADS"):
        e[var] = "1"
    e.pop("PHYST_FREE_ARITHMETICS", None)
    for k, v in (extra or {}).items():
        if v is None:
            e.pop(k, None)
        else:
            e[k] = v
    return e


def load_known():
    path = os.path.join(VERIF, "known_findings.json")
    if not os.path.exists(path):
        return []
    with open(path) as f:
        return json.load(f).get("findings", [])


def module_meta(prop):
    """Static metadata of a check module without importing physt in the driver."""
    out = subprocess.run(
        [PY, "-c",
         "import sys,json; sys.path.insert(0, %r); import sim, importlib; "
         "m=importlib.import_module('checks.%s'); "
         "print(json.dumps({k:getattr(m,k,None) for k in "
         "('PROPERTY','LEVEL','RULE','RUNS','PARTITIONS','COMPONENTS','ASSUMPTIONS','WALL','FAULT_KINDS')}))"
         % (VERIF, prop.lower())],
        capture_output=True, text=True, env=child_env(), timeout=120)
    if out.returncode != 0:
        raise RuntimeError("cannot load check module: " + out.stderr[-2000:])
    return json.loads(out.stdout.strip().splitlines()[-1])


def check_main(a):
    t0 = time.monotonic()
    prop = a.property
    tier = a.tier or os.environ.get("VERIF_TIER") or "quick"
    if tier not in ("quick", "thorough"):
        tier = "quick"
    TIER_ENV["tier"] = tier
    seed = a.seed if a.seed is not None else int(os.environ.get("VERIF_SEED", "0") or 0)
    meta = module_meta(prop)
    runs_total = a.runs or meta["RUNS"][tier]
    wall_cap = a.wall or meta["WALL"][tier]
    parts = meta["PARTITIONS"]
    workers = a.workers or min(16, os.cpu_count() or 1)
    scratch = tempfile.mkdtemp(prefix="histsim-", dir="/var/tmp")
    harness_msgs = []
    harness_notes = []  # recoverable trouble (e.g. a minimisation that failed but whose plain replay succeeded)
    agg = None
    det = {"seeds_checked": 0, "mismatches": 0}
    from collections import Counter

    try:
        per_part = max(1, runs_total // len(parts))
        results = []
        for k, part in enumerate(parts):
            out = os.path.join(scratch, f"part{k}.pkl")
            cmd = [PY, os.path.join(VERIF, "run.py"), "--worker", "--property", prop,
                   "--seed", str(seed), "--part", str(k), "--start", "0",
                   "--count", str(per_part), "--workers", str(workers),
                   "--wall", str(wall_cap / len(parts)), "--out", out]
            p = subprocess.run(cmd, env=child_env(part.get("env")), capture_output=True, text=True,
                               timeout=wall_cap * 3 + 600)
            if p.returncode != 0 or not os.path.exists(out):
                harness_msgs.append(f"worker for partition {k} failed rc={p.returncode}: "
                                    + (p.stderr or "")[-3000:])
                continue
            with open(out, "rb") as f:
                results.append((k, part, pickle.load(f)))
        # ---- determinism cross-check in a fresh interpreter with another hash seed
        for k, part, r in results:
            n = min(DET_SAMPLE, per_part)
            cmd = [PY, os.path.join(VERIF, "run.py"), "--digests", "--property", prop,
                   "--seed", str(seed), "--part", str(k), "--count", str(n)]
            p = subprocess.run(cmd, env=child_env(part.get("env"), hashseed="4242"),
                               capture_output=True, text=True, timeout=900)
            if p.returncode != 0:
                harness_msgs.append(f"digest child failed: {p.stderr[-2000:]}")
                continue
            dig = json.loads(p.stdout.strip().splitlines()[-1])
            for i_s, d in dig.items():
                det["seeds_checked"] += 1
                if r["digests"].get(int(i_s)) != d:
                    det["mismatches"] += 1
                    harness_msgs.append(
                        f"NONDETERMINISM property={prop} part={k} run={i_s}: "
                        f"pool digest {r['digests'].get(int(i_s))} vs fresh interpreter {d}")
        # ---- aggregate
        agg = {"runs": 0, "events": 0, "ticks": 0, "faults": Counter(), "probes": Counter(),
               "shapes": set(), "states": set(), "nontrivial_shapes": set(), "violations": {},
               "vio_runs": 0, "samples": [], "scenarios": Counter(), "stopped_early": False}
        for k, part, r in results:
            for key in ("runs", "events", "ticks", "vio_runs"):
                agg[key] += r[key]
            for key in ("faults", "probes", "scenarios"):
                agg[key].update(r[key])
            for key in ("shapes", "states", "nontrivial_shapes"):
                agg[key] |= r[key]
            agg["stopped_early"] |= r["stopped_early"]
            agg["samples"] += r["samples"][:2]
            for s, tb in r["harness"]:
                harness_msgs.append(f"harness exception in run seed={s}:\n{tb}")
            for sig, lst in r["violations"].items():
                agg["violations"].setdefault(sig, (part, lst))
        # ---- triage violations
        known = [k for k in load_known() if k.get("property") == prop]
        known_by_sig = {k["signature"]: k for k in known if k.get("status") == "known"}
        new_sigs = []
        known_hit = []
        for sig in sorted(agg["violations"]):
            if sig in known_by_sig:
                known_hit.append(sig)
            else:
                new_sigs.append(sig)
        for sig in known_hit:
            print(f"KNOWN-FINDING: property={prop} {known_by_sig[sig]['what']} [{sig}]")
        os.makedirs(os.path.join(VERIF, "replays"), exist_ok=True)
        reported = []
        for n, sig in enumerate(new_sigs):
            part, lst = agg["violations"][sig]
            vio, plan_text, hist = lst[0]
            item = os.path.join(scratch, f"vio{n}.json")
            with open(item, "w") as f:
                json.dump({"violation": vio, "plan": plan_text}, f)
            rp = os.path.join(VERIF, "replays", f"{prop}-{json.loads(plan_text)['seed']}-{n}.json")
            budget = (300, 20.0) if n < 6 else (1, 5.0)
            if os.environ.get("HISTSIM_TRIAGE") == "brief":
                # (sensitivity runs over dozens of seeded changes only need to know that something reproducible fails)
                budget = (40, 4.0) if n < 2 else (1, 2.0)

            def reproduces(path):
                # a replay file must reproduce in a fresh process before it is reported
                q = subprocess.run([PY, os.path.join(VERIF, "run.py"), "--replay", path],
                                   env=child_env(part.get("env")), capture_output=True, text=True, timeout=900)
                return (q.returncode == 1 and "VIOLATION" in q.stdout), q

            p = subprocess.run(
                [PY, os.path.join(VERIF, "run.py"), "--minimise", item, "--property", prop,
                 "--out", rp, "--max-exec", str(budget[0]), "--max-wall", str(budget[1])],
                env=child_env(part.get("env")), capture_output=True, text=True, timeout=600)
            ok_rep, q = (False, None)
            if p.returncode == 0 and os.path.exists(rp):
                ok_rep, q = reproduces(rp)
            else:
                harness_notes.append(f"minimisation failed for {sig}: {p.stderr[-2000:]}")
            if not ok_rep:
                # second attempt: the run exactly as it was executed, not minimised
                doc = json.loads(plan_text)
                doc["expect"] = vio
                with open(rp, "w") as f:
                    json.dump(doc, f)
                ok_rep, q = reproduces(rp)
            if not ok_rep and n < 6:
                # third attempt: the violation may need what earlier runs of the same process left behind (state the
                # library keeps between histories). Replay the process history: the last k runs of the chunk, then
                # the whole chunk up to the failing run.
                lo_i, i_i = int(hist["lo"]), int(hist["i"])
                for k in (2, 4, 16, i_i - lo_i + 1):
                    start = max(lo_i, i_i - k + 1)
                    m = subprocess.run(
                        [PY, os.path.join(VERIF, "run.py"), "--mkseq", item, "--property", prop, "--seed", str(seed),
                         "--part", str(parts.index(part)), "--start", str(start), "--count", str(i_i - start + 1),
                         "--out", rp], env=child_env(part.get("env")), capture_output=True, text=True, timeout=600)
                    if m.returncode != 0:
                        harness_notes.append(f"could not write the history replay for {sig}: {m.stderr[-1500:]}")
                        break
                    ok_rep, q = reproduces(rp)
                    if ok_rep or start == lo_i:
                        break
            if not ok_rep:
                harness_msgs.append(f"replay of {rp} did not reproduce {sig}: rc={q.returncode if q else None} "
                                    f"{(q.stdout[-800:] + ' ' + q.stderr[-800:]) if q else ''}")
                continue
            print(f"VIOLATION property={prop} replay={rp}")
            print(f"  signature: {sig}")
            print(f"  {vio['message'][:600]}")
            reported.append({"signature": sig, "replay": rp, "message": vio["message"][:400]})
        wall = time.monotonic() - t0
        zero_faults = [k for k in (meta.get("FAULT_KINDS") or []) if agg["faults"].get(k, 0) == 0]
        evidence = {
            "property_id": prop,
            "tier": tier,
            "seed": seed,
            "level": meta["LEVEL"],
            "wall_s": round(wall, 2),
            "violations": len(reported),
            "assumptions": meta["ASSUMPTIONS"],
            "coverage": {
                "evaluations": agg["runs"],
                "distinct_nontrivial": len(agg["nontrivial_shapes"]),
                "rule": meta["RULE"],
                "samples": agg["samples"][:3],
                "distinct_executions": len(agg["shapes"]),
                "distinct_states": len(agg["states"]),
                "runs_per_hour": int(agg["runs"] / max(wall, 1e-9) * 3600),
                "seeds": {"base": seed, "first_run_seed": seed * 1_000_003, "count": agg["runs"],
                          "partitions": [p.get("name", str(i)) for i, p in enumerate(parts)]},
                "sim_ticks": agg["ticks"],
                "events": agg["events"],
                "faults_fired": dict(sorted(agg["faults"].items())),
                "fault_kinds_never_fired": zero_faults,
                "probes": dict(sorted(agg["probes"].items())),
                "scenarios": dict(sorted(agg["scenarios"].items())),
                "components": meta["COMPONENTS"],
                "determinism": det,
                "runs_with_violation": agg["vio_runs"],
                "known_findings_hit": known_hit,
                "new_violation_signatures": [r["signature"] for r in reported],
                "stopped_early_by_wall_cap": agg["stopped_early"],
                "harness_errors": len(harness_msgs),
                "workers": workers,
            },
        }
        os.makedirs(os.path.join(VERIF, "evidence"), exist_ok=True)
        with open(os.path.join(VERIF, "evidence", f"{prop}.json"), "w") as f:
            json.dump(evidence, f, indent=1, sort_keys=False, allow_nan=True, default=str)
        print(f"{prop} {tier}: runs={agg['runs']} distinct_nontrivial={len(agg['nontrivial_shapes'])} "
              f"faults={sum(agg['faults'].values())} violations={len(reported)} "
              f"known={len(known_hit)} harness_errors={len(harness_msgs)} wall={wall:.1f}s")
        for m in harness_notes[:10]:
            print("HARNESS-NOTE:", m, file=sys.stderr)
        if harness_msgs:
            for m in harness_msgs[:10]:
                print("HARNESS-ERROR:", m, file=sys.stderr)
            # a violation that was reproduced from its replay file in a fresh process stands on its own, whatever
            # else went wrong in the batch (e.g. digests that differ because the library under test carries state
            # from run to run); without one, harness trouble is never reported as "held"
            return 1 if reported else 2
        if agg["runs"] == 0:
            print("HARNESS-ERROR: no run executed", file=sys.stderr)
            return 2
        return 1 if reported else 0
    finally:
        shutil.rmtree(scratch, ignore_errors=True)


def main(argv=None):
    ap = argparse.ArgumentParser()
    ap.add_argument("--property")
    ap.add_argument("--tier")
    ap.add_argument("--seed", type=int)
    ap.add_argument("--runs", type=int)
    ap.add_argument("--wall", type=float)
    ap.add_argument("--workers", type=int)
    ap.add_argument("--replay")
    ap.add_argument("--worker", action="store_true")
    ap.add_argument("--digests", action="store_true")
    ap.add_argument("--minimise")
    ap.add_argument("--mkseq")
    ap.add_argument("--part", type=int, default=0)
    ap.add_argument("--start", type=int, default=0)
    ap.add_argument("--count", type=int, default=0)
    ap.add_argument("--out")
    ap.add_argument("--max-exec", type=int, default=300)
    ap.add_argument("--max-wall", type=float, default=20.0)
    a = ap.parse_args(argv)
    try:
        if a.replay:
            return replay_main(a.replay)
        if a.worker:
            return worker_main(a)
        if a.digests:
            return digests_main(a)
        if a.minimise:
            return minimise_main(a)
        if a.mkseq:
            return mkseq_main(a)
        if not a.property:
            ap.error("--property required")
        return check_main(a)
    except SystemExit:
        raise
    except BaseException:  # noqa: BLE001 - anything unexpected is a harness failure, never exit 0/1
        traceback.print_exc()
        return 2


if __name__ == "__main__":
    sys.exit(main())
