"""In-memory file system with a durable layer and a fault plan.

Seam: `physt.io.json.open` is bound to `SimFS.open` for the duration of a run
(shadowing the builtin from outside; physt's source is untouched).

Semantics modelled (text files only, which is all physt.io.json uses):
* open(path, "w") truncates the *visible* content at once (O_TRUNC);
* write() appends to the handle's buffer; buffered text becomes visible on
  flush()/close() - so a writer that never closes its handle loses the text;
* nothing becomes *durable* unless `sync(path)` is called (physt never fsyncs:
  only the harness-level checkpoint protocol does, and `rename` is atomic);
* crash(): every file falls back to its durable content; a file whose write was
  in flight may keep a seeded prefix of the visible-but-not-durable text (torn).
Faults (consumed in order from the plan at the named site):
  open_fail (OSError EACCES/ENOENT), enospc (write raises ENOSPC after k
  characters reached the buffer), eio_close (close raises EIO, only a prefix
  of the buffer reached the file), eio_read (read raises EIO), short_read
  (read silently returns a prefix).
"""
from __future__ import annotations

import errno
import os


class SimFile:
    def __init__(self, fs, path, mode):
        self.fs = fs
        self.path = path
        self.mode = mode
        self.buf = []
        self.closed = False
        self.pos = 0

    # -- context manager -----------------------------------------------------------
    def __enter__(self):
        return self

    def __exit__(self, *exc):
        self.close()
        return False

    # -- writing -------------------------------------------------------------------
    def write(self, text):
        if self.closed:
            raise ValueError("I/O operation on closed file.")
        if "w" not in self.mode and "a" not in self.mode:
            raise OSError(errno.EBADF, "not writable")
        if not isinstance(text, str):
            raise TypeError("write() argument must be str")
        f = self.fs.take_fault("write", self.path)
        if f is not None and f["kind"] == "enospc":
            k = min(len(text), int(f.get("after", 0)))
            self.buf.append(text[:k])
            self.fs.fired("io_enospc_midwrite")
            self.flush_quiet()
            raise OSError(errno.ENOSPC, "No space left on device (simulated)", str(self.path))
        self.buf.append(text)
        self.fs.bytes_written += len(text)
        return len(text)

    def flush_quiet(self):
        if self.buf:
            self.fs.files[self.path]["visible"] += "".join(self.buf)
            self.buf = []

    def flush(self):
        self.flush_quiet()

    def close(self):
        if self.closed:
            return
        self.closed = True
        if "w" in self.mode or "a" in self.mode:
            f = self.fs.take_fault("close", self.path)
            if f is not None and f["kind"] == "eio_close":
                text = "".join(self.buf)
                k = min(len(text), int(f.get("after", 0)))
                self.fs.files[self.path]["visible"] += text[:k]
                self.buf = []
                self.fs.fired("io_eio_close")
                self.fs.open_handles.discard(self)
                raise OSError(errno.EIO, "Input/output error on close (simulated)", str(self.path))
            self.flush_quiet()
        self.fs.open_handles.discard(self)

    # -- reading -------------------------------------------------------------------
    def read(self, n=-1):
        if self.closed:
            raise ValueError("I/O operation on closed file.")
        if "r" not in self.mode:
            raise OSError(errno.EBADF, "not readable")
        f = self.fs.take_fault("read", self.path)
        text = self.fs.files[self.path]["visible"]
        if f is not None and f["kind"] == "eio_read":
            self.fs.fired("io_eio_read")
            raise OSError(errno.EIO, "Input/output error on read (simulated)", str(self.path))
        if f is not None and f["kind"] == "short_read":
            self.fs.fired("io_short_read")
            text = text[: min(len(text), int(f.get("after", 0)))]
        out = text[self.pos:] if n is None or n < 0 else text[self.pos:self.pos + n]
        self.pos += len(out)
        return out


class SimFS:
    def __init__(self, ctx=None):
        self.files = {}  # path -> {"visible": str, "durable": str | None}
        self.plan = []  # pending faults, consumed in order per site
        self.ctx = ctx
        self.open_handles = set()
        self.bytes_written = 0
        self.opens = 0

    # -- fault plan ------------------------------------------------------------------
    def arm(self, fault):
        self.plan.append(dict(fault))

    def disarm(self):
        self.plan = []

    def take_fault(self, site, path):
        for i, f in enumerate(self.plan):
            if f["site"] == site:
                return self.plan.pop(i)
        return None

    def fired(self, kind):
        if self.ctx is not None:
            self.ctx.fault(kind)

    # -- the seam ------------------------------------------------------------------
    def open(self, path, mode="r", encoding=None, **kwargs):
        path = os.fspath(path)
        self.opens += 1
        f = self.take_fault("open", path)
        if f is not None and f["kind"] == "open_fail":
            self.fired("io_open_fail")
            raise OSError(errno.EACCES, "Permission denied (simulated)", path)
        if "b" in mode:
            raise OSError(errno.EINVAL, "SimFS models text files only")
        if "r" in mode:
            if path not in self.files:
                raise FileNotFoundError(errno.ENOENT, "No such file or directory", path)
        elif "w" in mode:
            ent = self.files.setdefault(path, {"visible": "", "durable": None})
            ent["visible"] = ""  # O_TRUNC
        elif "a" in mode:
            self.files.setdefault(path, {"visible": "", "durable": None})
        else:
            raise OSError(errno.EINVAL, f"unsupported mode {mode!r}")
        h = SimFile(self, path, mode)
        self.open_handles.add(h)
        return h

    # -- harness-level operations ----------------------------------------------------
    def exists(self, path):
        return path in self.files

    def visible(self, path):
        """Visible content, or None if the file does not exist."""
        ent = self.files.get(path)
        return None if ent is None else ent["visible"]

    def sync(self, path):
        self.files[path]["durable"] = self.files[path]["visible"]

    def rename(self, src, dst):
        """Atomic replace; the durable state of dst becomes that of src."""
        self.files[dst] = self.files.pop(src)

    def set_text(self, path, text):
        """Replace the visible content (an un-synced edit); the durable layer is left as it is."""
        ent = self.files.setdefault(path, {"visible": "", "durable": None})
        ent["visible"] = text

    def crash(self, torn=None):
        """Process death: keep only durable state; `torn` = {path: k} keeps k chars of un-synced text."""
        for h in list(self.open_handles):
            h.closed = True
        self.open_handles.clear()
        self.plan = []
        for path in list(self.files):
            ent = self.files[path]
            if torn and path in torn and ent["visible"] != (ent["durable"] or ""):
                ent["visible"] = ent["visible"][: torn[path]]
                ent["durable"] = ent["visible"]
            elif ent["durable"] is None:
                del self.files[path]
            else:
                ent["visible"] = ent["durable"]


class mounted:
    """Context manager binding physt.io.json.open to a SimFS."""

    def __init__(self, fs):
        self.fs = fs

    def __enter__(self):
        import physt.io.json as pj

        self.mod = pj
        self.had = "open" in pj.__dict__
        self.prev = pj.__dict__.get("open")
        pj.open = self.fs.open
        return self.fs

    def __exit__(self, *exc):
        if self.had:
            self.mod.open = self.prev
        else:
            del self.mod.open
        return False
