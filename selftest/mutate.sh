#!/bin/bash
# usage: mutate.sh <property> <runs> <python-snippet that edits files under $SRC>   (scratch copy outside /repo and /verif)
P=$1; N=$2; SNIP=$3
D=$(mktemp -d /var/tmp/mut-XXXXXX); cp -r /repo/src $D/src
SRC=$D/src/physt /venv/bin/python -c "$SNIP" || { echo "snippet failed"; rm -rf $D; exit 3; }
PHYST_SRC=$D/src timeout 1200 /venv/bin/python /verif/run.py --property $P --tier quick --runs $N 2>&1 | grep -v "WARNING conda" | grep -E "signature:|quick:|HARNESS" | cut -c1-220
rm -rf $D
rm -f /verif/replays/$P-*.json
