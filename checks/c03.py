"""C03 - incremental filling (fill / fill_n) equals batch construction.

Stream pipeline on fixed bins: one source stream, k replicas over equal bins
(each with its own binning objects), every replica fed the same entries under
a different, seeded delivery schedule (all-at-once facade construction, one
fill per entry, fill_n chunks in any order/batching/container, mixed), the
deliveries of all replicas interleaved.  Differential oracle at every epoch
barrier plus a per-fill oracle (find_bin == fill's return, exact delta).
"""
from __future__ import annotations

import math

import numpy as np

import sim  # noqa: F401
from sim import build
from sim.core import attempt, bulk_tier, deep_tier, exc_tag
from sim.oracle import arrays_equal, first_diff, missed_tuple, snap, snap_diff

PROPERTY = "C03"
LEVEL = "exploration"
RUNS = {"quick": 60000, "thorough": 1500000}
WALL = {"quick": 240, "thorough": 1500}
PARTITIONS = [{"name": "default", "env": {}}]
FAULT_KINDS = ["layout:readonly", "layout:strided", "layout:fortran", "layout:byteswapped", "layout:scribble", "layout:masked", "nan_entered_as_value", "reorder", "batch_split", "empty_batch", "nan_entry", "interleave", "outside_value",
               "edge_value", "gap_value", "keep_missed_off", "rebin_between_epochs"]
RULE = ("one run = one seeded stream (<= 30 entries from an edge-centred pool) delivered to 2-4 replicas over "
        "equal fixed bins (1-3 D, all binning families, dtypes, keep_missed on/off, weights none/int/dyadic/float) "
        "by different schedules whose deliveries are interleaved; distinct = distinct sequence of "
        "(operation kind, replica mode, container, outcome class); non-trivial = at least one reordering, split "
        "batch, empty batch, NaN entry or outside/edge value was delivered")
COMPONENTS = {
    "real": ["physt._facade h1/h/h2/h3", "Histogram1D/HistogramND find_bin, fill, fill_n, <<",
             "physt._construction calculate_*_frequencies, extract_*", "physt.binnings (all classes)", "numpy"],
    "simulated": ["the data source and its delivery schedule (order, batching, container kind, interleaving of "
                  "replicas, epochs)"],
}
ASSUMPTIONS = [
    "differential oracle: replicas are compared with each other and with the histogram's own reported bins; the "
    "absolute edge rule of one construction call is C01/C02 (not applicable to this technique) and is not asserted",
    "bit-exact comparison when all sums are exactly representable (integer/dyadic weights), 1e-10*sum|w| otherwise",
    "under/overflow of non-consecutive 1-D bins may read NaN (unknown) and is then not compared",
]


# ----------------------------------------------------------------------------
# generation
# ----------------------------------------------------------------------------
def gen_config(rng, bulk=False):
    ndim = rng.choice([1, 1, 1, 2, 2, 3])
    fams = ["static", "static", "pairs", "numpy", "fixed", "fixed", "exp", "near"]
    if bulk:
        # many bins: 20-300 in 1-D, up to 40 x 40, up to 12 x 12 x 12
        hi = {1: rng.choice([40, 120, 300]), 2: rng.choice([12, 40]), 3: 12}[ndim]
        axes = [build.gen_axis(rng, min_bins=max(2, hi // 3), max_bins=hi, families=fams, scaled=0.15)
                for _ in range(ndim)]
    else:
        axes = [build.gen_axis(rng, max_bins=6 if ndim == 1 else (4 if ndim == 2 else 3), families=fams, scaled=0.08)
                for _ in range(ndim)]
    wkind = rng.choice(build.WEIGHT_KINDS + ["big", "big_i", "int_mid", "int_mid"] if rng.random() < 0.3
                       else build.WEIGHT_KINDS)
    dtype = build.pick_dtype(rng, wkind)
    if bulk and dtype in ("float16", "int16"):
        dtype = "float32" if dtype == "float16" else "int32"  # thousands of entries: counts beyond 2048 / 32767
    return {
        "hist": {"ndim": ndim, "axes": axes, "dtype": dtype,
                 "keep_missed": rng.random() < 0.7},
        "weights": wkind,
        "exact": wkind != "float",
        # sums of squared weights beyond 2**53 are exact only in integer bins
        "exact_e2": wkind not in ("float", "big", "big_i"),
        # element type of weight arrays (integer weights may come as narrow integers; the histogram is wider)
        "wdtype": rng.choice(["int16", "int32", "int64"]) if wkind == "int_mid" else None,
        # value type of the stream: float64 values, or values representable in float32 that are handed over
        # in single precision by some deliveries (numpy float32 scalars / arrays) and in double by others
        "vtype": rng.choice(["f64", "f64", "f64", "f32"]),
        "shared_arrays": rng.random() < 0.2,
        # what happens to NaN entries: "drop" - fill_n drops them (dropna=True), element-wise replicas skip them;
        # "keep" - they are entered like any value (fill(nan), fill_n(..., dropna=False)): every path must book
        # them the same way (physt: overflow in 1-D, missed in N-D)
        "nan_mode": rng.choice(["drop", "drop", "drop", "keep"]),
    }


def gen_entries(rng, cfg, n):
    axes = cfg["hist"]["axes"]
    pools = [build.axis_pool(build.spec_bins(a)) for a in axes]
    entries = []
    inside_bias = rng.random() < 0.3
    for _ in range(n):
        vals = [build.draw_value(rng, p, inside_only=inside_bias and rng.random() < 0.8) for p in pools]
        w = build.draw_weight(rng, cfg["weights"])
        entries.append([vals[0] if len(axes) == 1 else vals, w])
    if n and rng.random() < 0.12:
        # infinite values are values: below / above every bin
        for _ in range(rng.randint(1, 2)):
            vals = [build.draw_value(rng, p) for p in pools]
            vals[rng.randrange(len(vals))] = rng.choice([math.inf, -math.inf])
            entries.insert(rng.randrange(len(entries) + 1),
                           [vals[0] if len(axes) == 1 else vals, build.draw_weight(rng, cfg["weights"])])
    if n and rng.random() < (0.25 if cfg.get("nan_mode") != "keep" else 0.9):
        for _ in range(rng.randint(1, 3)):
            vals = [build.draw_value(rng, p) for p in pools]
            vals[rng.randrange(len(vals))] = math.nan
            entries.insert(rng.randrange(len(entries) + 1),
                           [vals[0] if len(axes) == 1 else vals, build.draw_weight(rng, cfg["weights"])])
    return entries


def is_nan_entry(e):
    v = e[0]
    if isinstance(v, list):
        return any(isinstance(x, float) and math.isnan(x) for x in v)
    return isinstance(v, float) and math.isnan(v)


def gen_deliveries(rng, mode, idxs, entries, ndim, first_epoch, keep_missed, max_chunk=8, keep_nan=False):
    """Ops (without replica id) that deliver entry indices `idxs` to one replica."""
    conts = ["list", "ndarray", "tuple", "iter", "series"] if ndim == 1 else ["list", "ndarray", "columns"]
    has_nan = any(is_nan_entry(entries[i]) for i in idxs)
    if mode == "batch":
        if keep_nan and has_nan:
            # (construction refuses NaN unless it may drop them: the all-at-once path is one fill_n here)
            return [{"op": "fill_n", "idx": list(idxs), "cont": rng.choice(conts), "dropna": False}]
        if first_epoch and (ndim == 1 or keep_missed):
            vias = {1: ["h1"], 2: ["h", "h2"], 3: ["h", "h3", "h3cols"]}[ndim]
            return [{"op": "construct", "idx": list(idxs), "via": rng.choice(vias),
                     "cont": rng.choice(["list", "ndarray"] + (["series"] if ndim == 1 else [])),
                     "mem": rng.choice(build.MEM_MODES)}]
        return [{"op": "fill_n", "idx": list(idxs), "cont": rng.choice(conts), "mem": rng.choice(build.MEM_MODES)}]
    order = list(idxs)
    rng.shuffle(order)
    out = []
    i = 0
    while i < len(order):
        single = mode == "single" or (mode == "mixed" and rng.random() < 0.5)
        if single:
            e = entries[order[i]]
            if keep_nan or not is_nan_entry(e):
                how = "lshift" if (e[1] is None and rng.random() < 0.3) else "fill"
                out.append({"op": "fill", "i": order[i], "how": how})
            i += 1
        else:
            k = rng.randint(1, max(1, min(max_chunk, len(order) - i)))
            out.append({"op": "fill_n", "idx": order[i:i + k], "cont": rng.choice(conts),
                        "dropna": (rng.random() < 0.8) and not keep_nan, "fold": rng.random() < 0.2,
                        "mem": rng.choice(build.MEM_MODES)})
            i += k
        if rng.random() < 0.08:
            out.append({"op": "fill_n", "idx": [], "cont": rng.choice(conts)})
    if mode == "single":
        return out
    rng.shuffle(out)
    return out


def generate(rng, seed, part):
    bulk = bulk_tier(rng)
    cfg = gen_config(rng, bulk)
    ndim = cfg["hist"]["ndim"]
    deep = deep_tier(rng)
    n = rng.choice([0, 1, 2, 3, 5, 8, 12, 20, 30])
    k = rng.randint(2, 4)
    max_chunk = 8
    if deep:
        n = rng.choice([40, 80, 150, 200])
        k = rng.randint(3, 6)
    if bulk:
        n = rng.choice([300, 1000, 3000, 5000, 10000])
        k = rng.randint(2, 3)
        max_chunk = rng.choice([64, 500, 2500, 10000])
        if cfg["weights"] == "big_i":
            cfg["weights"] = "int"  # sums of thousands of squares of 2**26 leave the int64 range
        cfg["bulk"] = True
    entries = gen_entries(rng, cfg, n)
    modes = ["batch"] + [rng.choice(["single", "chunks", "mixed", "batch"]) for _ in range(k - 1)]
    if bulk:
        # element-wise replicas of thousands of entries cost seconds: one at most, and only for the smallest size
        modes = ["batch"] + [rng.choice(["chunks", "chunks", "batch", "mixed" if n <= 300 else "chunks"])
                             for _ in range(k - 1)]
    rng.shuffle(modes)
    cfg["replicas"] = modes
    if cfg["vtype"] == "f32":
        for e in entries:
            e[0] = build.q32(e[0])
    n_epochs = rng.randint(1, 3) if len(entries) > 2 else 1
    cuts = sorted(rng.randrange(len(entries) + 1) for _ in range(n_epochs - 1))
    bounds = [0] + cuts + [len(entries)]
    ops = []
    for ep in range(n_epochs):
        idxs = list(range(bounds[ep], bounds[ep + 1]))
        queues = []
        for r, mode in enumerate(modes):
            dl = gen_deliveries(rng, mode, idxs, entries, ndim, ep == 0, cfg["hist"]["keep_missed"], max_chunk,
                                keep_nan=cfg["nan_mode"] == "keep")
            for d in dl:
                d["r"] = r
                if cfg["vtype"] == "f32" and d["op"] in ("fill", "fill_n") and rng.random() < 0.5:
                    d["vt"] = "f32"
            queues.append(dl)
        # interleave the replicas' deliveries, preserving each replica's own order
        while any(queues):
            live = [q for q in queues if q]
            q = rng.choice(live)
            ops.append(q.pop(0))
        ops.append({"op": "barrier"})
        if ep + 1 < n_epochs and rng.random() < 0.35:
            # between two epochs every replica is re-binned in place in the same way (the bins stay fixed and equal
            # afterwards): state cached by earlier fill / find_bin calls must not survive it
            ops.append({"op": "rebin", "axis": rng.randrange(ndim), "amount": rng.choice([2, 2, 3])})
    return {"property": PROPERTY, "scenario": "stream_fixed", "config": cfg, "entries": entries, "ops": ops}


# ----------------------------------------------------------------------------
# execution
# ----------------------------------------------------------------------------
class Rep:
    def __init__(self):
        self.h = None
        self.bag = []
        self.poisoned = False
        self.ops = 0


def weight_scale(entries, idxs):
    return sum(abs(entries[i][1]) if entries[i][1] is not None else 1.0 for i in idxs) + 1.0


def weight_scale2(entries, idxs):
    return sum(float(entries[i][1]) ** 2 if entries[i][1] is not None else 1.0 for i in idxs) + 1.0


def batch_data(entries, idxs, ndim, cont, wdtype=None):
    vals = [entries[i][0] for i in idxs]
    ws = [entries[i][1] for i in idxs]
    weights = None if (not ws or ws[0] is None) else ws
    if not idxs and entries and entries[0][1] is not None:
        weights = []
    if ndim == 1:
        data = build.as_container(vals, cont if cont != "columns" else "list")
    else:
        arr = np.asarray(vals, dtype=float).reshape(len(vals), ndim)
        if cont == "list" and len(vals):
            data = arr.tolist()
        elif cont == "columns":
            data = arr.T.copy()
        else:
            data = arr
    if weights is not None and (cont == "ndarray" or not len(weights)):
        # typed, so that an empty batch carries the stream's weight kind (numpy would call [] float)
        # (weights beyond 2**31 travel as floats: their squares are in range, sums of them in int64 are not)
        all_int = all(isinstance(e[1], int) and e[1] < 2 ** 31 for e in entries if e[1] is not None)
        weights = np.asarray(weights, dtype=np.int64 if all_int else np.float64)
    if cont == "series" and weights is not None and len(weights):
        import pandas as pd

        weights = pd.Series(np.asarray(weights))
        return data, weights
    if wdtype and weights is not None and len(weights):
        weights = np.asarray(weights, dtype=np.dtype(wdtype))  # also for list containers: a typed array
    return data, weights


def with_layout(ctx, data, weights, mem):
    """Hand the batch over in the memory layout `mem` (arrays only)."""
    held = []
    if mem and mem != "fresh":
        if isinstance(data, np.ndarray):
            data = build.in_memory_layout(data, mem)
            held.append(data)
        if isinstance(weights, np.ndarray):
            weights = build.in_memory_layout(weights, mem)
            held.append(weights)
        if held:
            ctx.fault("layout:" + mem)
    return data, weights, held


def caller_looks_back(ctx, h, held, mem, what, kind_tag):
    """After the call the caller overwrites the buffers it had handed over: the histogram must not care."""
    if mem != "scribble" or not held:
        return
    pre = snap(h)
    if not any([build.scribble_over(a) for a in held]):
        return
    d = snap_diff(pre, snap(h))
    if d:
        ctx.violation("C03/callers-array-untouched", f"C03/keeps-callers-buffer/{what}/{kind_tag}",
                      f"after {what} the caller overwrote the arrays it had passed in and the histogram changed in {d}: "
                      f"it still refers to the caller's memory")


def numeric_state(h):
    return (np.array(h.frequencies, dtype=np.float64), np.array(h.errors2, dtype=np.float64),
            missed_tuple(h) + (float(h.missed),))


def execute(plan, ctx):
    from physt import h as f_h, h1 as f_h1, h2 as f_h2, h3 as f_h3

    cfg = plan["config"]
    hs = cfg["hist"]
    ndim = hs["ndim"]
    entries = plan["entries"]
    exact = cfg["exact"]
    exact_e2 = cfg.get("exact_e2", exact)
    keep_nan = cfg.get("nan_mode") == "keep"
    # "consecutive" in the sense of the statement: every bin starts exactly where the previous one ends
    # (physt's own is_consecutive() is tolerance-based and calls bins with one-ulp gaps consecutive)
    def exactly_consecutive(spec):
        b = build.spec_bins(spec)
        return bool(np.array_equal(b[1:, 0], b[:-1, 1]))

    consecutive = all(exactly_consecutive(a) for a in hs["axes"])
    reps = {}
    if not hs["keep_missed"]:
        ctx.fault("keep_missed_off")
    ctx.state(ndim, tuple(a["kind"] for a in hs["axes"]), hs["dtype"], hs["keep_missed"], cfg["weights"])

    def rep(r):
        if r not in reps:
            reps[r] = Rep()
        return reps[r]

    caller_arrays = []

    def ensure(R):
        if R.h is None:
            if cfg.get("shared_arrays") and hs.get("dtype"):
                # the empty replica is built from ONE caller-owned zero array given as contents and as squared
                # errors (a legal call); the histogram must neither alias the two nor write into the caller's array
                axes = [build.make_binning(a) for a in hs["axes"]]
                shape = tuple(b.bin_count for b in axes)
                arr = np.zeros(shape, dtype=np.dtype(hs["dtype"]))
                caller_arrays.append(arr)
                cls = build.hist_class(ndim)
                kw = {"frequencies": arr, "errors2": arr, "keep_missed": hs["keep_missed"],
                      "dtype": np.dtype(hs["dtype"])}
                if ndim > 1:
                    # ... and one caller-owned missed count for all replicas
                    if not caller_arrays or caller_arrays[0].shape != (1,):
                        caller_arrays.insert(0, np.zeros(1, dtype=np.dtype(hs["dtype"])))
                    kw["missed"] = caller_arrays[0]
                ok_, res_ = attempt(lambda: cls(axes[0], **kw) if ndim == 1 else cls(axes, **kw))
                if ok_:
                    R.h = res_
                    ctx.probe("replica_from_shared_caller_array")
                    return
            R.h = build.make_empty(hs)

    def classify(v):
        """Which pool class a delivered value belongs to (for fault accounting only)."""
        vals = v if isinstance(v, list) else [v]
        if any(isinstance(x, float) and math.isnan(x) for x in vals):
            ctx.fault("nan_entered_as_value")
            return
        for ax, x in enumerate(vals):
            b = build.spec_bins(hs["axes"][ax])
            if x < b[0, 0] or x > b[-1, 1]:
                ctx.fault("outside_value")
            elif x in b:
                ctx.fault("edge_value")
            elif not np.any((b[:, 0] <= x) & (x < b[:, 1])) and x != b[-1, 1]:
                ctx.fault("gap_value")

    last_order = {}
    for step, op in enumerate(plan["ops"]):
        ctx.step = step
        ctx.advance()
        kind = op["op"]
        if kind == "barrier":
            groups = {}
            for r, R in sorted(reps.items()):
                if R.h is not None and not R.poisoned:
                    groups.setdefault(tuple(sorted(R.bag)), []).append((r, R))
            for bag, members in groups.items():
                if len(members) < 2:
                    continue
                r0, R0 = members[0]
                f0, e0, m0 = numeric_state(R0.h)
                scale = weight_scale(entries, bag)
                for r1, R1 in members[1:]:
                    f1, e1, m1 = numeric_state(R1.h)
                    modes = f"{cfg['replicas'][r0]}~{cfg['replicas'][r1]}" if r1 < len(cfg["replicas"]) else "?"
                    base = f"{type(R0.h).__name__}/km={hs['keep_missed']}"
                    if not arrays_equal(f0, f1, exact=exact, scale=scale):
                        ctx.violation("C03/replicas-agree", f"C03/replicas-disagree/frequencies/{base}",
                                      f"replicas {r0}({cfg['replicas'][r0]}) and {r1}({cfg['replicas'][r1]}) got the same "
                                      f"{len(bag)} entries but frequencies differ {first_diff(f0, f1)}")
                    if not arrays_equal(e0, e1, exact=exact_e2, scale=max(scale * 16, weight_scale2(entries, bag))):
                        ctx.violation("C03/replicas-agree", f"C03/replicas-disagree/errors2/{base}",
                                      f"replicas {r0}/{r1} ({modes}) errors2 differ {first_diff(e0, e1)}")
                    for j, (a, b) in enumerate(zip(m0, m1)):
                        if not consecutive and ndim == 1 and (math.isnan(a) or math.isnan(b)):
                            continue  # documented: unknown after a gap / for gapped construction
                        if not arrays_equal([a], [b], exact=exact, scale=scale):
                            name = (["underflow", "overflow", "inner_missed", "missed"][j] if ndim == 1
                                    else "missed")
                            ctx.violation("C03/replicas-agree", f"C03/replicas-disagree/{name}/{base}",
                                          f"replicas {r0}({cfg['replicas'][r0]}) and {r1}({cfg['replicas'][r1]}) got the same "
                                          f"entries but {name} differs: {a!r} vs {b!r}")
            ctx.ev("src", "barrier", None, len(groups))
            ctx.abstract("barrier", len(groups))
            continue

        if kind == "rebin":
            ax = op["axis"] % ndim
            live = [R for R in reps.values() if R.h is not None and not R.poisoned]
            if len(live) != len(cfg["replicas"]) or len(reps) != len(cfg["replicas"]):
                continue  # a replica that does not exist yet would be created over the old bins
            if not live or any(R.h.shape[ax] < 2 or not bool(R.h.binnings[ax].is_consecutive())
                               or not np.array_equal(np.asarray(R.h.binnings[ax].bins), np.asarray(live[0].h.binnings[ax].bins))
                               for R in live):
                continue
            for R in live:
                ok, res = attempt(R.h.merge_bins, op["amount"], axis=ax, inplace=True)
                if not ok:
                    R.poisoned = True
                    ctx.probe("rebin_failed:" + type(res).__name__)
            ctx.ev("src", "rebin", ax, op["amount"])
            ctx.abstract("rebin", ax, op["amount"])
            ctx.fault("rebin_between_epochs")
            continue
        r = op["r"]
        R = rep(r)
        if R.poisoned:
            continue
        mode = cfg["replicas"][r] if r < len(cfg["replicas"]) else "?"
        if kind == "construct":
            if R.h is not None:
                continue
            idxs = [i for i in op["idx"] if i < len(entries)]
            data, weights = batch_data(entries, idxs, ndim, op.get("cont", "ndarray"), cfg.get("wdtype"))
            data, weights, held = with_layout(ctx, data, weights, op.get("mem"))
            bins = [build.make_binning(a) for a in hs["axes"]]
            kw = {}
            if weights is not None:
                kw["weights"] = weights
            via = op["via"]
            if ndim == 1:
                if hs["dtype"]:
                    kw["dtype"] = np.dtype(hs["dtype"])
                ok, res = attempt(f_h1, data, bins[0], keep_missed=hs["keep_missed"], **kw)
            elif via == "h2" and ndim == 2:
                arr = np.asarray(data, dtype=float).reshape(len(idxs), 2)
                ok, res = attempt(f_h2, arr[:, 0], arr[:, 1], bins, **kw)
            elif via == "h3cols" and ndim == 3:
                arr = np.asarray(data, dtype=float).reshape(len(idxs), 3)
                ok, res = attempt(f_h3, [arr[:, 0], arr[:, 1], arr[:, 2]], bins, **kw)
            elif via == "h3" and ndim == 3:
                ok, res = attempt(f_h3, np.asarray(data, dtype=float).reshape(len(idxs), 3), bins, **kw)
            else:
                ok, res = attempt(f_h, np.asarray(data, dtype=float).reshape(len(idxs), ndim), bins, **kw)
            n_nan = sum(1 for i in idxs if is_nan_entry(entries[i]))
            if n_nan:
                ctx.fault("nan_entry", n_nan)
            ctx.ev(r, f"construct:{via}", len(idxs), "ok" if ok else exc_tag(res))
            ctx.abstract("construct", via, mode, ok)
            if not ok:
                R.poisoned = True
                ctx.violation("C03/valid-entry-accepted",
                              f"C03/construct-raised/{via}/{hist_kind(hs)}/{exc_tag(res)}",
                              f"all-at-once construction via {via} of {len(idxs)} entries raised {res!r}",
                              stop=False)
                continue
            R.h = res
            caller_looks_back(ctx, res, held, op.get("mem"), "construction", hist_kind(hs))
            R.bag += [i for i in idxs if not is_nan_entry(entries[i])]
            for i in idxs:
                if not is_nan_entry(entries[i]):
                    classify(entries[i][0])
            continue

        ensure(R)
        h = R.h
        if kind == "fill":
            i = op["i"]
            if i >= len(entries) or (is_nan_entry(entries[i]) and not keep_nan):
                continue
            v, w = entries[i]
            val = v if ndim == 1 else list(v)
            if op.get("vt") == "f32":
                val = np.float32(v) if ndim == 1 else np.asarray(v, dtype=np.float32)
                ctx.probe("float32_value_delivery")
            pre = snap(h)
            ok0, idx0 = attempt(h.find_bin, val)
            mid = snap(h)
            if not ok0:
                R.poisoned = True
                ctx.violation("C03/find_bin-total", f"C03/find_bin-raised/{hist_kind(hs)}/{exc_tag(idx0)}",
                              f"find_bin({val!r}) raised {idx0!r}", stop=False)
                continue
            if snap_diff(pre, mid):
                ctx.violation("C03/find_bin-pure", f"C03/find_bin-mutates/{hist_kind(hs)}/{snap_diff(pre, mid)}",
                              f"find_bin({val!r}) changed {snap_diff(pre, mid)}")
            f_pre, e_pre, m_pre = numeric_state(h)
            if op.get("how") == "lshift" and w is None:
                ok, ret = attempt(lambda: h << val)
                ret = idx0 if ok else ret  # << returns nothing
            elif w is None:
                ok, ret = attempt(h.fill, val)
            else:
                ok, ret = attempt(h.fill, val, w)
            ww = 1 if w is None else w
            classify(v)
            ctx.ev(r, "fill", i, repr(ret) if ok else exc_tag(ret))
            ctx.abstract("fill", mode, op.get("how"), idx_class(idx0, h), ok)
            if last_order.get(r, -1) > i:
                ctx.fault("reorder")
            last_order[r] = i
            if not ok:
                R.poisoned = True
                ctx.violation("C03/valid-entry-accepted",
                              f"C03/fill-raised/{hist_kind(hs)}/{idx_class(idx0, h)}/{exc_tag(ret)}",
                              f"fill({val!r}, weight={w!r}) on bins {h.bins!r} (find_bin -> {idx0!r}) raised {ret!r}",
                              stop=False)
                continue
            R.bag.append(i)
            if not same_index(ret, idx0):
                ctx.violation("C03/fill-returns-find_bin",
                              f"C03/fill-return!=find_bin/{hist_kind(hs)}/{idx_class(idx0, h)}",
                              f"fill({val!r}) returned {ret!r} but find_bin gave {idx0!r}")
            f_exp, e_exp, m_exp = f_pre.copy(), e_pre.copy(), list(m_pre)
            cls = idx_class(idx0, h)
            if cls == "bin":
                f_exp[idx0] += ww
                e_exp[idx0] += ww * ww
            elif hs["keep_missed"]:
                if ndim == 1:
                    if cls == "under":
                        m_exp[0] += ww
                        m_exp[3] += ww
                    elif cls == "over":
                        m_exp[1] += ww
                        m_exp[3] += ww
                    else:  # gap: under/overflow become unknown (documented)
                        m_exp = None
                else:
                    m_exp[0] += ww
                    m_exp[1] += ww
            f_post, e_post, m_post = numeric_state(h)
            sc = abs(ww) + float(np.abs(f_pre).sum()) + 1.0
            if not arrays_equal(f_exp, f_post, exact=exact, scale=sc):
                ctx.violation("C03/fill-delta", f"C03/fill-delta/frequencies/{hist_kind(hs)}/{cls}/km={hs['keep_missed']}",
                              f"fill({val!r}, w={w!r}) with find_bin={idx0!r}: frequencies changed unexpectedly, "
                              f"expected vs got {first_diff(f_exp, f_post)}")
            if not arrays_equal(e_exp, e_post, exact=exact_e2, scale=max(sc * 16, float(ww) ** 2 + float(np.abs(e_pre).sum()))):
                ctx.violation("C03/fill-delta", f"C03/fill-delta/errors2/{hist_kind(hs)}/{cls}/km={hs['keep_missed']}",
                              f"fill({val!r}, w={w!r}) with find_bin={idx0!r}: errors2 {first_diff(e_exp, e_post)}")
            if m_exp is not None and not arrays_equal(m_exp, m_post, exact=exact, scale=sc):
                ctx.violation("C03/fill-delta", f"C03/fill-delta/missed/{hist_kind(hs)}/{cls}/km={hs['keep_missed']}",
                              f"fill({val!r}, w={w!r}) with find_bin={idx0!r} keep_missed={hs['keep_missed']}: "
                              f"missed bookkeeping expected {m_exp} got {list(m_post)}")
            continue

        if kind == "fill_n":
            idxs = [i for i in op["idx"] if i < len(entries)]
            cont = op.get("cont", "list")
            data, weights = batch_data(entries, idxs, ndim, cont, cfg.get("wdtype"))
            kw = {}
            if weights is not None:
                kw["weights"] = weights
            if ndim > 1 and cont == "columns":
                kw["columns"] = True
            if ndim > 1 and not idxs:
                data = np.zeros((ndim, 0) if cont == "columns" else (0, ndim))
            if op.get("vt") == "f32" and cont != "iter":
                data = np.asarray(data, dtype=np.float32)
                if cont in ("list", "tuple") and ndim == 1:
                    data = [np.float32(x) for x in data]
                ctx.probe("float32_value_delivery")
            n_nan = sum(1 for i in idxs if is_nan_entry(entries[i]))
            if op.get("dropna") is False and (n_nan == 0 or keep_nan):
                kw["dropna"] = False  # valid: nothing to drop, or NaN is entered as a value (keep mode)
            if ndim == 1 and op.get("fold") and len(idxs) >= 4 and len(idxs) % 2 == 0 and cont in ("ndarray", "list"):
                # a 1-D histogram accepts input of any shape (documented: it is flattened); weights share the shape
                data = np.asarray(data, dtype=float).reshape(2, -1)
                if weights is not None:
                    kw["weights"] = np.asarray(weights).reshape(2, -1)
                if op.get("mem") in ("fortran", "strided", "readonly"):
                    # the block of values in another memory order than the block of weights
                    data = np.asfortranarray(data) if op["mem"] != "readonly" else data.T.copy().T
                    ctx.fault("layout:fortran")
                ctx.probe("fill_n_2d_shaped_input")
            if n_nan:
                ctx.fault("nan_entry", n_nan)
            if not idxs:
                ctx.fault("empty_batch")
            elif len(idxs) < len(entries):
                ctx.fault("batch_split")
            if idxs and idxs != sorted(idxs):
                ctx.fault("reorder")
            held = []
            if not op.get("fold") and op.get("vt") != "f32":
                data, w_, held = with_layout(ctx, data, kw.get("weights"), op.get("mem"))
                if "weights" in kw:
                    kw["weights"] = w_
            f_pre, e_pre, m_pre = numeric_state(h)
            ok, ret = attempt(h.fill_n, data, **kw)
            if ok:
                caller_looks_back(ctx, h, held, op.get("mem"), "fill_n", hist_kind(hs))
            ctx.ev(r, f"fill_n:{cont}", len(idxs), "ok" if ok else exc_tag(ret))
            ctx.abstract("fill_n", mode, cont, min(len(idxs), 3), n_nan > 0, ok)
            if not ok:
                R.poisoned = True
                what = "empty" if not idxs else "values"
                ctx.violation("C03/valid-entry-accepted",
                              f"C03/fill_n-raised/{hist_kind(hs)}/{what}/{exc_tag(ret)}",
                              f"fill_n of {len(idxs)} entries ({cont}, weights={'yes' if weights is not None else 'no'}, "
                              f"{n_nan} NaN) raised {ret!r}", stop=False)
                continue
            for i in idxs:
                if not is_nan_entry(entries[i]) or kw.get("dropna") is False:
                    R.bag.append(i)
                    classify(entries[i][0])
            if not idxs:
                f_post, e_post, m_post = numeric_state(h)
                m_same = all(
                    (not consecutive and ndim == 1 and (math.isnan(a) or math.isnan(b)))
                    or arrays_equal([a], [b], exact=True) for a, b in zip(m_pre, m_post))
                if not (arrays_equal(f_pre, f_post, exact=True) and arrays_equal(e_pre, e_post, exact=True)
                        and m_same):
                    ctx.violation("C03/empty-batch-noop", f"C03/empty-batch-changes/{hist_kind(hs)}",
                                  "an empty fill_n batch changed the histogram")
            continue
    for arr in caller_arrays:
        if np.any(arr != 0):
            ctx.violation("C03/callers-array-untouched", f"C03/caller-array-modified/{hist_kind(hs)}",
                          f"filling a histogram constructed from a caller-owned zero array wrote into that array: "
                          f"{arr.tolist()}"[:600])
    # interleaving accounting: number of switches between replicas in the op list
    sw = 0
    prev = None
    for op in plan["ops"]:
        if "r" in op:
            if prev is not None and op["r"] != prev:
                sw += 1
            prev = op["r"]
    if sw:
        ctx.fault("interleave", sw)


def hist_kind(hs):
    return "1D" if hs["ndim"] == 1 else "ND"


def idx_class(idx, h):
    if idx is None:
        return "gap" if h.ndim == 1 else "missed"
    if h.ndim == 1:
        if idx == -1:
            return "under"
        if idx == h.bin_count:
            return "over"
    return "bin"


def same_index(a, b):
    if a is None or b is None:
        return a is None and b is None
    if isinstance(a, tuple) or isinstance(b, tuple):
        try:
            return tuple(int(x) for x in a) == tuple(int(x) for x in b)
        except TypeError:
            return False
    return int(a) == int(b)


def simplify(plan):
    """Minimisation: drop unreferenced entries, then try removing single entries from batches."""
    import copy

    from sim.shrink import compact_entries

    c = compact_entries(plan, ())
    if c is not None:
        yield c
    for k, op in enumerate(plan.get("ops", [])):
        idx = op.get("idx")
        if idx and len(idx) > 8:
            for part in (idx[:len(idx) // 2], idx[len(idx) // 2:]):
                c = copy.deepcopy(plan)
                c["ops"][k]["idx"] = list(part)
                yield c
    for k, op in enumerate(plan.get("ops", [])):
        idx = op.get("idx")
        if idx and 1 < len(idx) <= 64:
            for j in range(len(idx)):
                c = copy.deepcopy(plan)
                del c["ops"][k]["idx"][j]
                yield c
