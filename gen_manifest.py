#!/usr/bin/env python3
"""Regenerates MANIFEST.json from one table (keeps it valid and consistent)."""
import json, os
HERE = os.path.dirname(os.path.abspath(__file__))
PY = "/venv/bin/python"
CLAIMS = json.load(open(os.path.join(HERE, "claims.json")))
NA = json.load(open(os.path.join(HERE, "not_applicable.json")))
checks = []
for c in CLAIMS:
    pid = c["id"]
    checks.append({
        "property_id": pid,
        "quick_cmd": f"timeout 1500 {PY} run.py --property {pid} --tier quick",
        "thorough_cmd": f"timeout 5400 {PY} run.py --property {pid} --tier thorough",
        "evidence_file": f"/verif/evidence/{pid}.json",
        "replay_cmd_template": f"{PY} run.py --replay {{path}}",
        "engine": "histsim",
        "level_claimed": {"category": c["level"], "text": c["text"], "design_ref": c["design_ref"]},
        "level_note": c["note"],
        "technique": c["technique"],
    })
m = {
    "version": 1,
    "setup_cmd": f"{PY} -c \"import sys; sys.path.insert(0, '/verif'); import sim, physt, numpy, dask; from sim.paths import check_physt_location as c; print('physt from', c())\"",
    "hooks": {
        "guard": "PHYST_VERIF",
        "enable": "no hooks are needed: physt is pure Python and is imported from /repo/src (the working tree) by every check; all seams are existing ones (module-global `open` of physt.io.json, the dask facade's `dask_method=`, sys.settrace, awaitables owned by the harness)",
        "baseline_off_cmd": "cd /repo && /venv/bin/python -m pytest -ra -q -p no:cacheprovider --timeout=900 --continue-on-collection-errors",
        "source_commits": [],
        "add_only": True,
    },
    "engines": [{
        "name": "histsim",
        "path": "/verif/run.py",
        "serves_properties": [c["id"] for c in CLAIMS],
        "kind_free_text": "deterministic simulation with fault injection: one PRNG seed -> one plan (operations, delivery schedule, actor schedule, fault positions) -> one replayable execution of real physt code against reference models; seeded search over many runs on a fork pool; ddmin minimisation; replay files",
    }],
    "checks": checks,
    "not_applicable": NA,
    "notes": "See DESIGN.md. Exit codes of every command: 0 held (KNOWN-FINDING lines allowed), 1 VIOLATION lines, 2 harness failure. known_findings.json lists recorded/fixed physt defects.",
}
json.dump(m, open(os.path.join(HERE, "MANIFEST.json"), "w"), indent=1)
print("MANIFEST.json written:", [c["property_id"] for c in checks])
