import sys
pid, tag = sys.argv[1], sys.argv[2]
wt=f"/tmp/wt-{pid}-{tag}"
prop=open(f"/verif/selftest/props/prop-{pid}.txt").read()
extra = sys.argv[3] if len(sys.argv) > 3 else ""
print(f"""You are helping to evaluate a verification suite for the Python histogram library janpipek/physt. Your job: produce ONE realistic code change (a subtle bug a developer could plausibly introduce in a refactoring or 'optimisation') that BREAKS the semantic property below, while the library still imports and its existing test suite still passes.

Work ONLY inside your own scratch git worktree of the repository: {wt}  (the library source is under {wt}/src/physt, tests under {wt}/tests). Never touch /repo or /verif, and do not read anything under /verif.

{prop}
Requirements for the change:
1. It must make the property false for some inputs / histories, but it must need something SPECIFIC to manifest - a particular multi-step sequence of operations, an unusual (but valid) input, a particular interleaving of threads/tasks, a fault at a particular point, or two cooperating edits that each look fine alone. Do NOT make a change that ordinary simple use would expose at once. {extra}
2. The existing test suite must still pass with the change. Run it like this (takes ~30 s):
   cd {wt} && PYTHONPATH={wt}/src /venv/bin/python -m pytest -q -p no:cacheprovider -n 4 --timeout=900 2>&1 | tail -3
   (Two hypothesis tests in tests/compat/test_polars.py are timing-flaky under load (DeadlineExceeded), and tests/test_histogram1d.py::TestFillN::test_increases_total_by_zero_or_weight fails randomly on the unchanged code too; ignore those three only. Everything else must pass: expect about 404-406 passed. Set HYPOTHESIS_STORAGE_DIRECTORY=/var/tmp/hyp-{pid}-{tag} in the environment of your pytest runs.)
3. Keep the change small (a few lines, one or two files under src/physt). Do not edit tests.
4. Write a demonstration script {wt}/demo.py - a small standalone program using only the public API that exits 0 when the property holds for its scenario and exits 1 (printing what went wrong) when it does not. It must FAIL (exit 1) with your change and PASS (exit 0) on the unchanged code. Verify both yourself:
   with the change:    cd {wt} && PYTHONPATH={wt}/src /venv/bin/python demo.py; echo $?
   without the change: cd {wt} && git diff -- src > p.diff && git apply -R p.diff && PYTHONPATH={wt}/src /venv/bin/python demo.py; echo $?; git apply p.diff
   (NEVER use `git stash`: the stash is shared by all worktrees of this repository and other people work in sibling worktrees.)
5. When done, leave the change applied in the worktree (uncommitted is fine), and write {wt}/patch.diff with `cd {wt} && git diff -- src > patch.diff`.

Report back (concisely): the diff, what exactly is needed for the bug to manifest, the output of the test-suite summary line with the change, and the demo results (exit codes with and without the change).""")
