"""C04 - adaptive fixed-width histograms never lose a value when bins grow.

Stream pipeline on adaptive nodes: one accumulator (1-3 D, started empty or
pre-filled, via facade or class constructor, align/shift options) receives a
seeded stream through fill / fill_n in seeded chunking.  After *every* event:
conservation, zero missed, the value just entered is found in a bin that
contains it, grid rule, interval-map containment (old contents stay attached
to their interval), exact span.  At the end: equals the fixed-bin histogram of
the same bag over the final bins.  A second scenario derives non-adaptive
fixed_width / pretty / integer binnings from data and checks coverage.
"""
from __future__ import annotations

import math

import numpy as np

import sim  # noqa: F401
from sim import build
from sim.core import attempt, bulk_tier, deep_tier, exc_tag
from sim.oracle import (arrays_equal, carry_over, first_diff, hist_arrays, locate, missed_tuple, num_equal,
                        wellformed_problems)

PROPERTY = "C04"
LEVEL = "exploration"
RUNS = {"quick": 40000, "thorough": 1000000}
WALL = {"quick": 240, "thorough": 1500}
PARTITIONS = [{"name": "default", "env": {}}]
FAULT_KINDS = build.LAYOUT_FAULTS + ["grow_left", "grow_right", "far_value", "edge_multiple", "ulp_neighbour", "decimal_literal",
               "empty_batch", "nan_entry", "batch_split", "first_value_creates_bins", "derived_object_filled"]
RULE = ("one run = one adaptive fixed-width accumulator (1-3 D; width from {1,2,0.5,0.25,0.1,0.3,2.5,7,1e-3}; "
        "empty or pre-filled; facade or class constructor; align/shift) fed a seeded stream (<= 40 entries: grid "
        "multiples, ulp neighbours of edges, decimal literals, far values, NaN rows) by fill / fill_n in seeded "
        "chunking, all invariants evaluated after every event; or one data-derived static fixed_width/pretty/"
        "integer construction; distinct = distinct sequence of (op kind, growth direction per axis, batch size "
        "class); non-trivial = the bins grew at least once or an edge-adjacent value was entered")
COMPONENTS = {
    "real": ["FixedWidthBinning._force_bin_existence(_single), numpy_bins, copy", "HistogramBase._reshape_data / "
             "_apply_bin_map", "Histogram1D/HistogramND fill, fill_n, find_bin", "fixed_width/pretty/integer "
             "binning factories, h1 / h facades", "numpy"],
    "simulated": ["the data source and its chunking schedule"],
}
ASSUMPTIONS = [
    "values are finite; widths positive; pretty binning only for data with two distinct values whose range is resolvable in floating point (>= 1e-9 of the magnitude) - preconditions of the statement",
    "grid rule tolerant to max(8 ulp of the largest magnitude involved, 1e-9*width), so another float formula for the same grid is accepted",
    "growth bounded to 5000 bins (1-D) / 200 bins per axis (N-D) by the value pool",
]

WIDTHS = [1.0, 2.0, 0.5, 0.25, 0.1, 0.3, 2.5, 7.0, 1e-3]


# ----------------------------------------------------------------------------
# generation
# ----------------------------------------------------------------------------
def draw_adaptive_value(rng, w, shift, cap, base_k=0):
    """Values that stress floor/ceil arithmetic on the grid shift + k*w, |k - base_k| <= cap."""
    r = rng.random()
    k = rng.randint(-cap, cap) if rng.random() < 0.25 else rng.randint(-min(12, cap), min(12, cap))
    if base_k:
        # far from the origin: the same shapes of values around base_k * w (decimal literals make no sense there)
        k += base_k
        if r < 0.25:
            return k * w + shift
        if r < 0.45:
            return build.near(k * w + shift, rng.choice([-1, 1]))
        return (k + rng.random()) * w + shift
    if r < 0.25:
        return k * w + shift  # exact grid multiple (as computed in floats)
    if r < 0.40:
        x = k * w + shift
        return build.near(x, rng.choice([-1, 1]))
    if r < 0.55:
        return round(rng.randint(-60, 60) * 0.1, 10) if rng.random() < 0.5 else rng.choice(
            [1.7, -1.7, 0.3, 2.1, -2.1, 0.7, 4.35, 0.1 + 0.2, 1.1 * 3])
    if r < 0.65:
        return float(rng.randint(-cap, cap)) * w + shift + rng.random() * w  # far, interior
    if r < 0.70:
        return rng.choice([0.0, -0.0, w, -w, w / 2, -w / 2, shift])
    return (k + rng.random()) * w + shift


def bounded(rng, w, shift, cap, base_k=0):
    """draw_adaptive_value clipped so that bins never grow beyond ~2*cap per axis."""
    for _ in range(6):
        x = draw_adaptive_value(rng, w, shift, cap, base_k)
        if abs(x - shift - base_k * w) <= (cap + 1) * w:
            return x
    return (base_k + rng.randint(-cap + 1, cap - 1) + rng.random()) * w + shift


def generate(rng, seed, part):
    if rng.random() < 0.18:
        return generate_derived(rng)
    ndim = rng.choice([1, 1, 1, 2, 2, 3])
    cap = {1: 2000 if rng.random() < 0.08 else 150, 2: 16, 3: 5}[ndim]
    axes = []
    for _ in range(ndim):
        w = rng.choice(WIDTHS)
        ax = {"width": w, "align": rng.random() < 0.8, "shift": None, "start": "empty",
              "base_k": rng.choice([0, 0, 0, 0, 10 ** 6, -3 * 10 ** 5, 12345678])}
        if rng.random() < 0.25:
            ax["shift"] = rng.choice([0.5, 0.25, w / 2, 0.1, w / 4])
        axes.append(ax)
    wkind = rng.choice(["none", "none", "int", "dyadic", "float"])
    create = rng.choice(["facade", "class"])
    dtype = build.pick_dtype(rng, wkind)
    if dtype in ("float16",):
        dtype = "float32"
    cfg = {"ndim": ndim, "axes": axes, "weights": wkind, "exact": wkind != "float", "create": create,
           "dtype": dtype, "prefill": 0, "vtype": rng.choice(["f64", "f64", "f64", "f32"]),
           # an adaptive histogram never has anything to miss, whether or not it would keep track of it
           "keep_missed": rng.random() < 0.8}
    if create == "class" and rng.random() < 0.4:
        for ax in axes:
            ax["start"] = "bins"
            ax["times_min"] = rng.randint(-5, 5) + ax["base_k"]
            ax["count"] = rng.randint(1, 4)
            # the integer parameters may well come out of a numpy computation
            ax["np_int"] = rng.random() < 0.3
    n = rng.choice([1, 2, 3, 5, 8, 12, 20, 40])
    if deep_tier(rng):
        n = rng.choice([60, 120, 200])
    bulk = bulk_tier(rng) and rng.random() < 0.7
    if bulk:
        # thousands of rows, delivered in a few batches of thousands: size-dependent paths of fill_n
        n = rng.choice([2500, 5000, 9000])
        cfg["bulk"] = True
        if cfg["dtype"] == "int16":
            cfg["dtype"] = "int32"
    entries = []
    for _ in range(n):
        vals = [bounded(rng, ax["width"], ax["shift"] or 0.0, cap, ax.get("base_k", 0)) for ax in axes]
        entries.append([vals[0] if ndim == 1 else vals, build.draw_weight(rng, wkind)])
    if cfg["vtype"] == "f32":
        for e in entries:
            e[0] = build.q32(e[0])  # representable in single precision: deliverable as float32 or float64
    if create == "facade" and rng.random() < 0.4 and n >= 2:
        cfg["prefill"] = rng.randint(1, max(1, n // 2))  # first entries go into the constructing call
    ops = []
    i = cfg["prefill"]
    conts = ["list", "ndarray", "tuple", "iter"] if ndim == 1 else ["list", "ndarray", "columns"]
    while i < n:
        vt = "f32" if (cfg["vtype"] == "f32" and rng.random() < 0.6) else None
        if rng.random() < (0.03 if bulk else 0.5):
            ops.append({"op": "fill", "i": i, "vt": vt})
            i += 1
        else:
            k = rng.randint(1, min(10, n - i))
            if bulk:
                k = min(n - i, rng.choice([5, 100, 2048, 2500, 4096, n]))
            idx = list(range(i, i + k))
            rng.shuffle(idx)
            op = {"op": "fill_n", "idx": idx, "cont": rng.choice(conts), "vt": vt, "mem": rng.choice(build.MEM_MODES)}
            if rng.random() < 0.15:
                op["nan_at"] = rng.randrange(k)
            ops.append(op)
            i += k
        if rng.random() < 0.07:
            ops.append({"op": "fill_n", "idx": [], "cont": rng.choice(conts)})
        if ndim > 1 and rng.random() < 0.06:
            # somebody takes a projection / an integer selection of the accumulator and fills *that* object beyond its
            # range; the accumulator's own history goes on afterwards
            ops.append({"op": "side", "how": rng.choice(["projection", "select"]), "axis": rng.randrange(ndim),
                        "far": rng.choice([-9.5, 11.25, 40.0])})
        if rng.random() < 0.05:
            # ... or an empty clone / a full copy of it (a second accumulator over "the same bins")
            ops.append({"op": "side", "how": rng.choice(["copy_empty", "copy_empty", "copy", "edit_edges", "edit_edges",
                                                         "added_to_another", "added_to_another"]),
                        "axis": rng.randrange(ndim), "far": rng.choice([-9.5, 11.25, 40.0])})
    return {"property": PROPERTY, "scenario": "adaptive_stream", "config": cfg, "entries": entries, "ops": ops}


def generate_derived(rng):
    ndim = rng.choice([1, 1, 2])
    method = rng.choice(["fixed_width", "fixed_width", "pretty", "integer"])
    n = rng.choice([2, 3, 5, 10, 25])
    axes = []
    for _ in range(ndim):
        w = rng.choice(WIDTHS)
        axes.append({"width": w, "align": rng.random() < 0.8, "shift": None})
    entries = []
    wkind = rng.choice(["none", "int", "dyadic"])
    for _ in range(n):
        vals = [bounded(rng, ax["width"], 0.0, 300 if ndim == 1 else 16) for ax in axes]
        entries.append([vals[0] if ndim == 1 else vals, build.draw_weight(rng, wkind)])
    cfg = {"ndim": ndim, "axes": axes, "weights": wkind, "exact": True, "method": method,
           "bin_count": rng.choice([None, 3, 7, 20]), "include_width": rng.random() < 0.7,
           # right-edge inclusion of the derived binning (a documented option of the factories)
           "ire": rng.random() < 0.3, "far": rng.random() < 0.2}
    if cfg["far"]:
        # the same data shapes far from the origin (bins narrow compared with the magnitude of the edges)
        for e in entries:
            if ndim == 1:
                e[0] = e[0] + 1000.0
            else:
                e[0] = [x + 1000.0 for x in e[0]]
    return {"property": PROPERTY, "scenario": "derived_static", "config": cfg, "entries": entries,
            "ops": [{"op": "construct"}]}


# ----------------------------------------------------------------------------
# execution
# ----------------------------------------------------------------------------
def ulp(x):
    return math.ulp(abs(x)) if x != 0 else math.ulp(1e-300)


def grid_problems(h, widths, e0_init):
    """Contiguity and grid rule per axis; returns list of messages."""
    out = []
    for ax, b in enumerate(h.binnings):
        bins = np.asarray(b.bins, dtype=float)
        if bins.shape[0] == 0:
            continue
        w = widths[ax]
        if not np.array_equal(bins[1:, 0], bins[:-1, 1]):
            out.append(f"axis {ax}: bins not contiguous")
        e0 = float(bins[0, 0])
        edges = np.concatenate([bins[:1, 0], bins[:, 1]])
        steps = np.arange(edges.shape[0]) * w
        tol = np.maximum(8 * np.maximum(np.maximum(np.spacing(np.abs(edges)), np.spacing(np.abs(steps))), ulp(e0)),
                         1e-9 * w)  # physt adds a shift of unknown magnitude: allow its rounding
        off = np.abs(edges - (e0 + steps)) > tol
        if np.any(off):
            i = int(np.nonzero(off)[0][0])
            out.append(f"axis {ax}: edge {i} = {edges[i]!r} is off the grid {e0!r} + {i}*{w!r}")
        if e0_init[ax] is not None:
            k = round((e0_init[ax] - e0) / w)
            tol0 = max(8 * max(ulp(e0), ulp(k * w), ulp(e0_init[ax])), 1e-9 * w)
            if abs(e0 + k * w - e0_init[ax]) > tol0:
                out.append(f"axis {ax}: first edge {e0!r} left the original grid through {e0_init[ax]!r} (width {w!r})")
    return out


def containing_interval(bins, v):
    for l, r in bins:
        if l <= v < r:
            return (float(l), float(r))
    return None


def entry_key(h, vals):
    """Interval key (per axis) of a value by the histogram's own reported bins, or None."""
    key = []
    for ax, b in enumerate(h.binnings):
        iv = containing_interval(np.asarray(b.bins, dtype=float), vals[ax])
        if iv is None:
            return None
        key.append(iv)
    return tuple(key)


def make_adaptive(cfg, entries):
    from physt import h as f_h, h1 as f_h1
    from physt.binnings import FixedWidthBinning
    from physt.histogram1d import Histogram1D
    from physt.histogram_nd import Histogram2D, HistogramND

    ndim = cfg["ndim"]
    axes = cfg["axes"]
    dtype = np.dtype(cfg["dtype"]) if cfg.get("dtype") else None
    if cfg["create"] == "class":
        bs = []
        for ax in axes:
            kw = {"bin_width": ax["width"], "adaptive": True, "align": ax["align"]}
            if ax.get("start") == "bins":
                kw.update(bin_count=ax["count"], bin_times_min=ax["times_min"])
                if ax.get("np_int"):
                    kw.update(bin_count=np.int64(ax["count"]), bin_times_min=np.int64(ax["times_min"]))
            if ax.get("shift") is not None:
                kw["bin_shift"] = ax["shift"]
            bs.append(FixedWidthBinning(**kw))
        kw = {"dtype": dtype} if dtype is not None else {}
        if not cfg.get("keep_missed", True):
            kw["keep_missed"] = False
        if ndim == 1:
            return Histogram1D(bs[0], **kw)
        return (Histogram2D if ndim == 2 else HistogramND)(bs, **kw)
    pre = entries[: cfg.get("prefill", 0)]
    data = None
    weights = None
    if pre:
        data = np.asarray([e[0] for e in pre], dtype=float).reshape(len(pre), -1)
        if pre[0][1] is not None:
            weights = np.asarray([e[1] for e in pre])
    if ndim == 1:
        kw = {"bin_width": axes[0]["width"], "adaptive": True}
        if not axes[0]["align"]:
            kw["align"] = False
        if axes[0].get("shift") is not None:
            kw["bin_shift"] = axes[0]["shift"]
        if dtype is not None:
            kw["dtype"] = dtype
        if weights is not None:
            kw["weights"] = weights
        if not cfg.get("keep_missed", True):
            kw["keep_missed"] = False
        return f_h1(None if data is None else data[:, 0], "fixed_width", **kw)
    kw = {"bin_width": [ax["width"] for ax in axes], "adaptive": True, "dim": ndim}
    if any(not ax["align"] for ax in axes):
        kw["align"] = [ax["align"] for ax in axes]
    if any(ax.get("shift") is not None for ax in axes):
        kw["bin_shift"] = [ax.get("shift") for ax in axes]
    if weights is not None:
        kw["weights"] = weights
    return f_h(data, "fixed_width", **kw)


def execute(plan, ctx):
    if plan["scenario"] == "derived_static":
        return execute_derived(plan, ctx)
    cfg = plan["config"]
    entries = plan["entries"]
    ndim = cfg["ndim"]
    exact = cfg["exact"]
    widths = [ax["width"] for ax in cfg["axes"]]
    kind = "1D" if ndim == 1 else "ND"
    ok, h = attempt(make_adaptive, cfg, entries)
    if not ok:
        ctx.violation("C04/creation", f"C04/create-raised/{kind}/{cfg['create']}/{exc_tag(h)}",
                      f"creating the adaptive histogram ({cfg['create']}, prefill={cfg.get('prefill')}) raised {h!r}")
    ctx.state(ndim, cfg["create"], cfg.get("prefill", 0) > 0, cfg["weights"], tuple(widths))
    bag = list(range(min(cfg.get("prefill", 0), len(entries))))  # delivered (non-NaN) entry indices
    e0_init = [None] * ndim
    init_first = [None] * ndim  # first/last edge of bins that existed before any value arrived
    init_last = [None] * ndim
    if not bag:
        for ax, b in enumerate(h.binnings):
            if b.bin_count:
                init_first[ax] = float(b.bins[0, 0])
                init_last[ax] = float(b.bins[-1, 1])

    def vec(i):
        v = entries[i][0]
        return [v] if ndim == 1 else list(v)

    def wt(i):
        return 1 if entries[i][1] is None else entries[i][1]

    def check_all(step_entries, prev_map, what):
        """Invariants after one event that delivered `step_entries` (indices)."""
        total_w = sum(wt(i) for i in bag)
        scale = sum(abs(wt(i)) for i in bag) + 1.0
        probs = wellformed_problems(h)
        if probs:
            ctx.violation("C04/well-formed", f"C04/malformed/{kind}/{what}",
                          f"after {what}: the histogram is inconsistent with itself: {probs}; bins={h.bins!r}"[:1500])
        if not num_equal(h.total, total_w, exact=exact, scale=scale):
            ctx.violation("C04/conservation", f"C04/total!=entered/{kind}/{what}",
                          f"after {what}: total={h.total!r} but {total_w!r} was entered ({len(bag)} entries); "
                          f"missed={missed_tuple(h)} bins={h.bins!r}"[:1500])
        m = missed_tuple(h)
        if not cfg.get("keep_missed", True) and ndim == 1:
            m = tuple(x for x in m if not math.isnan(x))  # (a 1-D histogram that keeps no track reports NaN)
        if any(not num_equal(x, 0.0, exact=exact, scale=scale) for x in m):
            ctx.violation("C04/no-missed", f"C04/missed!=0/{kind}/{what}",
                          f"after {what}: missed bookkeeping {m} (under/over/inner or missed) is not zero; "
                          f"entries of this event: {[entries[i] for i in step_entries]} bins={h.bins!r}"[:1500])
        for msg in grid_problems(h, widths, e0_init):
            ctx.violation("C04/grid", f"C04/grid/{kind}/{msg.split(':')[1].strip().split(' ')[0]}",
                          f"after {what}: {msg}")
        for ax, b in enumerate(h.binnings):
            if e0_init[ax] is None and b.bin_count:
                e0_init[ax] = float(b.bins[0, 0])
        # the value just entered lies in the bin find_bin reports
        for i in step_entries:
            v = vec(i)
            ok_, ix = attempt(h.find_bin, v[0] if ndim == 1 else v)
            bad = (not ok_) or ix is None or (ndim == 1 and (ix < 0 or ix >= h.bin_count))
            if not bad:
                ixs = (ix,) if ndim == 1 else ix
                for ax, j in enumerate(ixs):
                    l, r = h.binnings[ax].bins[j]
                    if not (l <= v[ax] < r):
                        bad = True
            if bad:
                ctx.violation("C04/value-in-bin", f"C04/value-not-in-its-bin/{kind}/{what}",
                              f"after {what} of {entries[i]!r}: find_bin -> {ix!r}, which is no bin containing the value; "
                              f"bins={h.bins!r}"[:1500])
        # interval-map containment (vectorised: same intervals keep their contents)
        cur = hist_arrays(h)
        exp_f, exp_e, lost = carry_over(prev_map, cur[0])
        for ax, iv in lost:
            ctx.violation("C04/contents-stay-attached", f"C04/interval-lost/{kind}/{what}",
                          f"after {what}: axis {ax} interval {iv} held content but no longer exists")
        for i in step_entries:
            cell = locate(cur[0], vec(i))
            if cell is not None:
                exp_f[cell] += wt(i)
                exp_e[cell] += wt(i) ** 2
        if not (arrays_equal(exp_f, cur[1], exact=exact, scale=scale)
                and arrays_equal(exp_e, cur[2], exact=exact, scale=scale * 16)):
            bad = first_diff(exp_f, cur[1]) if not arrays_equal(exp_f, cur[1], exact=exact, scale=scale) \
                else first_diff(exp_e, cur[2])
            ctx.violation("C04/contents-stay-attached", f"C04/interval-content-moved/{kind}/{what}",
                          f"after {what}: contents are not 'earlier contents on their own intervals + this event's "
                          f"entries in the bins that contain them': expected vs got {bad}; event entries "
                          f"{[entries[i] for i in step_entries]}; bins now {h.bins!r}"[:1500])
        # exact span
        if bag:
            for ax, b in enumerate(h.binnings):
                bins = np.asarray(b.bins, dtype=float)
                vals = [vec(i)[ax] for i in bag]
                lo_iv = containing_interval(bins, min(vals))
                hi_iv = containing_interval(bins, max(vals))
                if lo_iv is None or hi_iv is None:
                    continue  # reported by value-in-bin
                want_first = lo_iv[0] if init_first[ax] is None else min(lo_iv[0], init_first[ax])
                want_last = hi_iv[1] if init_last[ax] is None else max(hi_iv[1], init_last[ax])
                if bins[0, 0] != want_first:
                    ctx.violation("C04/span-exact", f"C04/superfluous-bins/{kind}/left",
                                  f"after {what}: axis {ax} first bin starts at {bins[0, 0]!r} but the lowest bin ever needed "
                                  f"starts at {want_first!r} (min value {min(vals)!r}, width {widths[ax]!r})")
                if bins[-1, 1] != want_last:
                    ctx.violation("C04/span-exact", f"C04/superfluous-bins/{kind}/right",
                                  f"after {what}: axis {ax} last bin ends at {bins[-1, 1]!r} but the highest bin ever needed "
                                  f"ends at {want_last!r} (max value {max(vals)!r}, width {widths[ax]!r})")
        return cur

    prev = {}
    if bag:
        ctx.fault("first_value_creates_bins")
        prev = check_all(list(bag), ([np.zeros((0, 2))] * ndim, np.zeros((0,) * ndim), np.zeros((0,) * ndim)), "construct")
    else:
        prev = hist_arrays(h)
        for ax, b in enumerate(h.binnings):
            if b.bin_count:
                e0_init[ax] = float(b.bins[0, 0])

    for step, op in enumerate(plan["ops"]):
        ctx.step = step
        ctx.advance()
        shape_before = tuple(h.shape)
        first_before = [float(b.bins[0, 0]) if b.bin_count else None for b in h.binnings]
        if op["op"] == "side":
            if any(b.bin_count == 0 for b in h.binnings):
                continue
            if op["how"] == "added_to_another":
                # the accumulator is the right operand of an addition with another adaptive histogram (other range);
                # the SUM then grows further - the accumulator is nobody's business in all of this
                from physt.binnings import FixedWidthBinning
                from physt.histogram1d import Histogram1D as _H1
                from physt.histogram_nd import HistogramND as _HN

                def build_and_add():
                    bs = []
                    for b in h.binnings:
                        k0 = int(round((b.first_edge - b._shift) / b.bin_width))
                        bs.append(FixedWidthBinning(bin_width=b.bin_width, bin_count=1, bin_times_min=k0 - 3,
                                                    bin_shift=b._shift, adaptive=True))
                    other = _H1(bs[0]) if ndim == 1 else _HN(bs)
                    centre = [float(np.asarray(b.bins)[0].mean()) for b in bs]
                    other.fill(centre[0] if ndim == 1 else centre)
                    total = other + h
                    far = [float(np.asarray(b.bins)[0, 0]) + op["far"] * widths[k] for k, b in enumerate(total.binnings)]
                    total.fill(far[0] if ndim == 1 else far)
                    far2 = [float(np.asarray(b.bins)[-1, 1]) + 2.5 * widths[k] for k, b in enumerate(total.binnings)]
                    total.fill_n([far2[0]] if ndim == 1 else [far2])
                ok, res = attempt(build_and_add)
                ctx.ev("other", "side:added_to_another", None, "ok" if ok else exc_tag(res))
                ctx.abstract("side", "added_to_another", ok)
                ctx.fault("derived_object_filled")
                prev = check_all([], prev, "growth-of-a-sum-the-accumulator-was-added-to")
                continue
            if op["how"] == "edit_edges":
                # a copy hands out its edges and the caller turns them into bin centres in place - the copy's own
                # business; the accumulator (same grid, same state) must not notice
                ok, side = attempt(h.copy)
                if ok:
                    ax = op["axis"] % ndim

                    def edit():
                        e = side.edges if ndim == 1 else side.numpy_bins[ax]
                        e += widths[ax] / 2
                        b = side.bins if ndim == 1 else side.bins[ax]
                        b += widths[ax] / 2
                    ok, res = attempt(edit)
                    ctx.ev("other", "side:edit_edges", ax, "ok" if ok else exc_tag(res))
                    ctx.abstract("side", "edit_edges", ok)
                    ctx.fault("derived_object_filled")
                    prev = check_all([], prev, "edit-of-edges-handed-out-by-a-copy")
                continue
            if op["how"] in ("copy_empty", "copy"):
                ok, side = attempt(h.copy, include_frequencies=op["how"] == "copy")
                if ok:
                    far = [float(np.asarray(b.bins)[0, 0]) + op["far"] * widths[k] for k, b in enumerate(side.binnings)]
                    ok, res = attempt(side.fill, far[0] if ndim == 1 else far)
                    ctx.ev("other", f"side:{op['how']}", None, "ok" if ok else exc_tag(res))
                    ctx.abstract("side", op["how"], ok)
                    ctx.fault("derived_object_filled")
                    prev = check_all([], prev, "fill-of-a-derived-histogram")
                continue
            if ndim < 2:
                continue
            ax = op["axis"] % ndim
            if op["how"] == "projection":
                ok, side = attempt(h.projection, ax)
            else:
                ok, side = attempt(h.select, ax, 0)
            if not ok:
                ctx.probe("side_derivation_failed:" + type(side).__name__)
                continue
            w_ax = [widths[a] for a in range(ndim) if (a == ax) == (op["how"] == "projection")]
            far = [float(np.asarray(b.bins)[0, 0]) + op["far"] * w_ax[k] for k, b in enumerate(side.binnings)]
            ok, res = attempt(side.fill, far[0] if side.ndim == 1 else far)
            ctx.ev("other", f"side:{op['how']}", ax, "ok" if ok else exc_tag(res))
            ctx.abstract("side", op["how"], ok)
            ctx.fault("derived_object_filled")
            prev = check_all([], prev, "fill-of-a-derived-histogram")
            continue
        if op["op"] == "fill":
            i = op["i"]
            if i >= len(entries):
                continue
            v, w = entries[i]
            classify(ctx, vec(i), cfg)
            if op.get("vt") == "f32":
                v = np.float32(v) if ndim == 1 else np.asarray(v, dtype=np.float32)
                ctx.probe("float32_value_delivery")
            ok, ret = attempt(h.fill, v) if w is None else attempt(h.fill, v, w)
            ctx.ev("src", "fill", i, repr(ret) if ok else exc_tag(ret))
            if not ok:
                ctx.violation("C04/valid-entry-accepted", f"C04/fill-raised/{kind}/{exc_tag(ret)}",
                              f"fill({v!r}, {w!r}) raised {ret!r}; bins={h.bins!r}"[:1500])
            bag.append(i)
            what = "fill"
            step_entries = [i]
        else:
            idxs = [i for i in op["idx"] if i < len(entries)]
            rows = [vec(i) for i in idxs]
            ws = [entries[i][1] for i in idxs]
            nan_row = None
            if idxs and op.get("nan_at") is not None:
                nan_row = op["nan_at"] % (len(idxs) + 1)
                r = list(rows[0])
                r[0] = math.nan
                rows.insert(nan_row, r)
                ws.insert(nan_row, ws[0])
                ctx.fault("nan_entry")
            weights = None if (cfg["weights"] == "none") else np.asarray(
                ws, dtype=np.int64 if cfg["weights"] == "int" else np.float64)
            cont = op.get("cont", "list")
            if ndim == 1:
                data = build.as_container([r[0] for r in rows], cont)
                kw = {}
            else:
                arr = np.asarray(rows, dtype=float).reshape(len(rows), ndim)
                kw = {}
                if cont == "columns":
                    data = arr.T.copy()
                    kw["columns"] = True
                elif cont == "list" and len(rows):
                    data = arr.tolist()
                else:
                    data = arr
            if weights is not None:
                kw["weights"] = weights if cont == "ndarray" or not len(ws) else list(ws)
            if op.get("vt") == "f32" and cont != "iter" and len(rows):
                data = np.asarray(data, dtype=np.float32)
                ctx.probe("float32_value_delivery")
            for i in idxs:
                classify(ctx, vec(i), cfg)
            if not idxs:
                ctx.fault("empty_batch")
            elif len(idxs) < len(entries):
                ctx.fault("batch_split")
            held = []
            if len(rows) and op.get("vt") != "f32":
                (data, w_), held = build.hand_over(ctx, op.get("mem"), data, kw.get("weights"))
                if "weights" in kw:
                    kw["weights"] = w_
            ok, ret = attempt(h.fill_n, data, **kw)
            if ok:
                from sim.oracle import snap as _snap, snap_diff as _snap_diff
                build.scribble_check(ctx, h, held, op.get("mem"), _snap, _snap_diff, "C04", f"fill_n/{kind}")
            ctx.ev("src", f"fill_n:{cont}", len(idxs), "ok" if ok else exc_tag(ret))
            if not ok:
                ctx.violation("C04/valid-entry-accepted",
                              f"C04/fill_n-raised/{kind}/{'empty' if not idxs else 'values'}/{exc_tag(ret)}",
                              f"fill_n of {len(idxs)} entries ({cont}, nan row={nan_row}) raised {ret!r}; "
                              f"values={rows!r}"[:1500])
            bag.extend(idxs)
            what = "fill_n"
            step_entries = idxs
        grew = []
        for ax, b in enumerate(h.binnings):
            g = ""
            if first_before[ax] is None and b.bin_count:
                g = "new"
                ctx.fault("first_value_creates_bins")
            elif first_before[ax] is not None:
                if float(b.bins[0, 0]) < first_before[ax]:
                    g += "L"
                    ctx.fault("grow_left")
                if b.bin_count - (1 if "L" in g else 0) > shape_before[ax] and (
                        h.shape[ax] - shape_before[ax]) > round((first_before[ax] - float(b.bins[0, 0])) / widths[ax]):
                    g += "R"
                    ctx.fault("grow_right")
            grew.append(g)
        ctx.abstract(what, tuple(grew), min(len(step_entries), 3))
        prev = check_all(step_entries, prev, what)
        ctx.state(tuple(min(s, 6) for s in h.shape), str(h.dtype))

    # at the end: equals the fixed-bin histogram of the same bag over the final bins
    if bag and all(b.bin_count for b in h.binnings):
        from physt import h as f_h, h1 as f_h1
        from physt.binnings import StaticBinning

        fixed_bins = [StaticBinning(np.asarray(b.bins, dtype=float).copy(), includes_right_edge=False)
                      for b in h.binnings]
        data = np.asarray([vec(i) for i in bag], dtype=float).reshape(len(bag), ndim)
        weights = None if cfg["weights"] == "none" else np.asarray([wt(i) for i in bag])
        kw = {} if weights is None else {"weights": weights}
        if ndim == 1:
            ok, ref = attempt(f_h1, data[:, 0], fixed_bins[0], **kw)
        else:
            ok, ref = attempt(f_h, data, fixed_bins, **kw)
        if ok:
            scale = sum(abs(wt(i)) for i in bag) + 1.0
            if not (arrays_equal(ref.frequencies, h.frequencies, exact=exact, scale=scale)
                    and arrays_equal(ref.errors2, h.errors2, exact=exact, scale=scale * 16)):
                ctx.violation("C04/equals-fixed-bin-histogram", f"C04/differs-from-fixed-bins/{kind}",
                              f"final adaptive contents {np.asarray(h.frequencies).tolist()} differ from the fixed-bin "
                              f"histogram of the same {len(bag)} entries over the final bins "
                              f"{np.asarray(ref.frequencies).tolist()}"[:1500])
        ctx.ev("oracle", "final-compare", None, "ok" if ok else exc_tag(ref))


def classify(ctx, vals, cfg):
    for ax, x in enumerate(vals):
        w = cfg["axes"][ax]["width"]
        s = cfg["axes"][ax].get("shift") or 0.0
        q = (x - s) / w
        if q == round(q):
            ctx.fault("edge_multiple")
        elif abs(q - round(q)) < 1e-9:
            ctx.fault("ulp_neighbour")
        if abs(q) > 50:
            ctx.fault("far_value")
        if round(x * 10) / 10 == x and x != round(x):
            ctx.fault("decimal_literal")


def execute_derived(plan, ctx):
    from physt import h as f_h, h1 as f_h1

    cfg = plan["config"]
    entries = plan["entries"]
    ndim = cfg["ndim"]
    method = cfg["method"]
    kind = "1D" if ndim == 1 else "ND"
    data = np.asarray([e[0] for e in entries], dtype=float).reshape(len(entries), ndim)
    if method == "pretty":
        for ax in range(ndim):
            col = data[:, ax]
            if len(set(col.tolist())) < 2:
                return  # precondition of the statement
            if (col.max() - col.min()) < 1e-9 * max(abs(col.max()), abs(col.min()), 1e-290):
                # the width pretty_binning derives from such a range is below the float resolution at
                # the data's magnitude (no representable grid exists): outside the statement's domain
                ctx.probe("pretty_range_below_resolution_skipped")
                return
    weights = None if cfg["weights"] == "none" else np.asarray([e[1] for e in entries])
    kw = {} if weights is None else {"weights": weights}
    if cfg.get("ire") and method in ("fixed_width", "pretty"):
        kw["includes_right_edge"] = True
    if method == "fixed_width":
        kw["bin_width"] = cfg["axes"][0]["width"] if ndim == 1 else [a["width"] for a in cfg["axes"]]
    elif method == "integer":
        if cfg["include_width"]:
            kw["bin_width"] = 1 if ndim == 1 else [1] * ndim
    elif method == "pretty" and cfg.get("bin_count"):
        kw["bin_count"] = cfg["bin_count"]
    for x in data.flatten():
        classify(ctx, [x], {"axes": [cfg["axes"][0]]})
    if ndim == 1:
        ok, h = attempt(f_h1, data[:, 0], method, **kw)
    else:
        ok, h = attempt(f_h, data, method, **kw)
    ctx.ev("src", f"construct:{method}", len(entries), "ok" if ok else exc_tag(h))
    ctx.abstract("derived", method, ndim, ok)
    if not ok:
        ctx.violation("C04/derived-construction", f"C04/derived-raised/{kind}/{method}/{exc_tag(h)}",
                      f"h(data, {method!r}, {kw}) raised {h!r} for data {data.tolist()}"[:1500])
    total_w = float(len(entries)) if weights is None else float(sum(e[1] for e in entries))
    m = missed_tuple(h)
    if any(x != 0 for x in m) or not num_equal(h.total, total_w, exact=True):
        ctx.violation("C04/derived-coverage", f"C04/derived-binning-misses-data/{kind}/{method}",
                      f"{method} binning derived from the data does not cover it: total={h.total!r} of {total_w!r}, "
                      f"missed={m}, bins={h.bins!r}, data={data.tolist()}"[:1500])
    ctx.state(method, ndim, tuple(min(s, 6) for s in h.shape))
