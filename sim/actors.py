"""Seeded baton scheduler for real threads and real asyncio tasks.

Exactly one participant (the scheduler or one actor) is runnable at any time:

* thread actors are real `threading.Thread`s parked on a semaphore each; they
  hand the baton back at *pre-emption candidates*: instruction boundaries of
  their program and de-duplicated `sys.settrace` line events inside physt's
  own frames (config.py / histogram_base.py);
* task actors are real `asyncio.Task`s in one event loop (run by the scheduler
  thread); each awaits a future only the scheduler resolves, so the ready
  queue never holds more than one of them;
* the scheduler is a coroutine on that loop.  When it resumes a thread actor it
  blocks the loop thread until the thread parks again.

Who runs next, and for how many candidates (the quantum), comes from the plan.
"""
from __future__ import annotations

import asyncio
import sys
import threading

from .core import HarnessError, StopRun

TRACED_SUFFIXES = ("physt/config.py", "physt/histogram_base.py")
BATON_TIMEOUT = 120.0


class ActorKilled(BaseException):
    """Unwinds a parked actor when the run is aborted."""


class AppError(Exception):
    """Application exception raised inside with-blocks by actor programs."""


class ActorBase:
    kind = "?"

    def __init__(self, sched, aid):
        self.sched = sched
        self.aid = aid
        self.quantum = 0
        self.done = False
        self.started = False
        self.park_reason = "start"
        self.consumed = 0
        self.error = None
        self.user = None  # interpreter state attached by the check
        self.cancel_requested = False

    def __repr__(self):
        return f"<{self.kind} actor {self.aid}>"


class ThreadActor(ActorBase):
    kind = "thread"

    def __init__(self, sched, aid, body):
        super().__init__(sched, aid)
        self.body = body  # async def body(actor) driven synchronously
        self.sem = threading.Semaphore(0)
        self.thread = threading.Thread(target=self._main, name=f"histsim-actor-{aid}", daemon=True)

    # -- runs in the actor thread ------------------------------------------------
    def _main(self):
        if not self.sem.acquire(timeout=BATON_TIMEOUT):
            return
        try:
            if self.sched.killed:
                return
            sys.settrace(self._global_trace)
            coro = self.body(self)
            try:
                coro.send(None)
            except StopIteration:
                pass
            else:
                coro.close()
                raise HarnessError("thread actor body awaited something real")
        except ActorKilled:
            pass
        except StopRun as exc:
            self.sched.abort = exc
        except BaseException as exc:  # noqa: BLE001
            self.error = exc
        finally:
            sys.settrace(None)
            self.done = True
            self.park_reason = "done"
            self.sched.sem.release()

    def _global_trace(self, frame, event, arg):
        if frame.f_code.co_filename.endswith(TRACED_SUFFIXES):
            last = [None]
            actor = self

            def local(frame, event, arg):
                # CPython 3.12 may deliver an extra `line` event for a line resumed after a
                # nested call the first time a code object runs; candidates are therefore
                # de-duplicated per frame (see DESIGN 3.5).
                if event == "line":
                    ln = frame.f_lineno
                    if ln != last[0]:
                        last[0] = ln
                        actor.point_sync("line")
                return local

            return local
        return None

    def point_sync(self, reason):
        if self.sched.killed:
            return
        self.consumed += 1
        self.quantum -= 1
        if self.quantum <= 0:
            self.park_reason = reason
            self.sched.sem.release()
            if not self.sem.acquire(timeout=BATON_TIMEOUT):
                raise ActorKilled()
            if self.sched.killed:
                raise ActorKilled()

    async def point(self, reason="step"):
        self.point_sync(reason)

    def start(self):
        self.started = True
        self.thread.start()


class TaskActor(ActorBase):
    kind = "task"

    def __init__(self, sched, aid, body):
        super().__init__(sched, aid)
        self.body = body
        self.gate_f = None
        self.parked_f = None
        self.task = None
        self.cancel_requested = False

    async def _main(self):
        try:
            await self._park("start")
            await self.body(self)
        except ActorKilled:
            pass
        except StopRun as exc:
            self.sched.abort = exc
        except asyncio.CancelledError:
            # a cancel that arrives outside the program's own handling (e.g. abort)
            pass
        except BaseException as exc:  # noqa: BLE001
            self.error = exc
        finally:
            self.done = True
            self.park_reason = "done"
            if self.parked_f is not None and not self.parked_f.done():
                self.parked_f.set_result(None)

    async def _park(self, reason):
        self.park_reason = reason
        loop = asyncio.get_running_loop()
        self.gate_f = loop.create_future()
        if self.parked_f is not None and not self.parked_f.done():
            self.parked_f.set_result(None)
        await self.gate_f  # CancelledError is thrown here by cancel_in_context
        if self.sched.killed:
            raise ActorKilled()

    async def point(self, reason="step"):
        if self.sched.killed:
            return
        self.consumed += 1
        self.quantum -= 1
        if self.quantum <= 0:
            await self._park(reason)

    def create(self, loop):
        """Create the asyncio.Task *now* (the context is copied at this moment)."""
        self.started = True
        self.parked_f = loop.create_future()
        self.task = loop.create_task(self._main(), name=f"histsim-actor-{self.aid}")
        return self.parked_f


class Scheduler:
    def __init__(self):
        self.sem = threading.Semaphore(0)
        self.actors = {}
        self.killed = False
        self.abort = None
        self.loop = None

    def register(self, actor):
        self.actors[actor.aid] = actor

    def runnable(self):
        return [a for a in self.actors.values() if a.started and not a.done]

    async def start_actor(self, actor):
        """Start an actor and wait until it is parked before its first instruction."""
        if isinstance(actor, ThreadActor):
            actor.start()  # blocks on its semaphore at once
        else:
            f = actor.create(asyncio.get_running_loop())
            await asyncio.wait_for(f, BATON_TIMEOUT)

    async def resume(self, actor, quantum, cancel=False):
        """Hand the baton to `actor` for `quantum` candidates; return when it parks/finishes."""
        if actor.done or not actor.started:
            return False
        actor.quantum = max(1, quantum)
        actor.consumed = 0
        if isinstance(actor, ThreadActor):
            actor.sem.release()
            if not self.sem.acquire(timeout=BATON_TIMEOUT):
                self.killed = True
                raise HarnessError(f"baton lost: {actor} did not park within {BATON_TIMEOUT}s")
        else:
            loop = asyncio.get_running_loop()
            actor.parked_f = loop.create_future()
            if cancel:
                actor.cancel_requested = True
                actor.task.cancel()
            else:
                actor.gate_f.set_result(None)
            await asyncio.wait_for(actor.parked_f, BATON_TIMEOUT)
        if actor.error is not None:
            err = actor.error
            actor.error = None
            self.killed = True
            raise HarnessError(f"{actor} crashed: {type(err).__name__}: {err}") from err
        if self.abort is not None:
            raise self.abort
        return True

    async def shutdown(self):
        """Release every parked actor so that no thread or task outlives the run."""
        self.killed = True
        for a in list(self.actors.values()):
            if not a.started or a.done:
                continue
            if isinstance(a, ThreadActor):
                a.sem.release()
                a.thread.join(timeout=BATON_TIMEOUT)
                # the dying thread releases the scheduler semaphore once more; drain it
                self.sem.acquire(timeout=1.0)
            else:
                if a.gate_f is not None and not a.gate_f.done():
                    a.gate_f.set_result(None)
                try:
                    await asyncio.wait_for(a.task, BATON_TIMEOUT)
                except (asyncio.CancelledError, Exception):  # noqa: BLE001
                    pass
        for a in self.actors.values():
            if isinstance(a, ThreadActor) and a.started:
                a.thread.join(timeout=BATON_TIMEOUT)
                if a.thread.is_alive():
                    raise HarnessError(f"{a} thread still alive after shutdown")
