"""C08 - JSON round trip reproduces the histogram exactly (persistence surface).

physt.io.json runs on a simulated file system (sim/simfs.py, seam:
`physt.io.json.open`).  Histograms are the live nodes of running histories
(all classes incl. transformed ones and collections, every binning type,
dtypes, missed values, NaN missed markers after gap fills, metadata).
Operations: save_json / to_json(path) on a small set of paths (overwrites of
longer and shorter documents), load_json, parse_json(to_json()), version-stamp
edits, I/O faults (failing open, ENOSPC mid-write, EIO on close / read, short
read), checkpoint -> crash (clean or torn) -> restart -> resume, with a replica
that never crashes.
"""
from __future__ import annotations

import json
import math

import numpy as np

import sim  # noqa: F401
from sim import build
from sim.core import attempt, bulk_tier, deep_tier, exc_tag
from sim.oracle import snap, snap_diff
from sim.simfs import SimFS, mounted

PROPERTY = "C08"
LEVEL = "exploration"
RUNS = {"quick": 80000, "thorough": 1500000}
WALL = {"quick": 240, "thorough": 1500}
PARTITIONS = [{"name": "default", "env": {}}]
FAULT_KINDS = ["io_open_fail", "io_enospc_midwrite", "io_eio_close", "io_eio_read", "io_short_read", "overwrite",
               "crash_restart", "crash_torn", "version_newer", "nan_missed_marker", "checkpoint"]
RULE = ("one run = one live histogram of a seeded class (Histogram1D/2D/ND, the seven transformed classes, a "
        "collection) x binning type x dtype x keep_missed x metadata, driven through a seeded history (<= 14) of "
        "fills, saves/loads on 2 paths of a simulated file system, parse_json(to_json()), version edits, armed I/O "
        "faults, checkpoints, crashes (clean / torn) and restarts with stream resume; distinct = distinct sequence of "
        "(op, class, fault kind, outcome); non-trivial = at least one fault, overwrite, crash or version edit fired")
COMPONENTS = {
    "real": ["physt.io.json save_json/load_json/parse_json", "physt.io.util.create_from_dict, io.version",
             "HistogramBase.to_dict/_kwargs_from_dict/from_dict and overrides", "BinningBase.to_dict/from_dict and "
             "every _update_dict", "HistogramCollection.to_dict/from_dict", "json (stdlib)", "numpy"],
    "simulated": ["the OS file layer under physt.io.json (SimFS: visible vs durable content, truncation, buffering, "
                  "rename, fault plan)", "process death and restart (only durable state survives)",
                  "the data source feeding the accumulator"],
}
ASSUMPTIONS = [
    "statistics are not part of the JSON document and are not listed by the statement: not compared",
    "custom metadata uses keys that are not constructor parameter names",
    "after a save that raised nothing is asserted about the file; after a torn crash a load may raise "
    "(a wrong-but-parsable result is recorded as a probe, C08 promises nothing about torn files)",
    "collections: compared member by member (the statement's wording); collection name/title are not in the document",
]

CLASSES = ["h1", "h1", "h1", "h2", "h2", "h3", "polar", "radial", "azimuthal", "spherical", "spherical_surface",
           "cylindrical", "cylindrical_surface", "collection"]
# paths inside the simulated file system only: code that by-passes the seam (os.open, pathlib) cannot create them
PATHS = ["/histsim-simfs/a.json", "/histsim-simfs/b.json"]
META = [{}, {"run": 7}, {"tag": "x", "params": [1, 2.5, "a"]}, {"nested": {"a": 1, "b": [True, None]}},
        {"unit": "GeV", "scale": 0.25}, {"label": "p\u2090 [\u00b5m] \u2013 \u00dcn\u00efc\u00f6de", "quote": "a \"b\" \\ c"}]


# ----------------------------------------------------------------------------
# generation
# ----------------------------------------------------------------------------
def generate(rng, seed, part):
    klass = rng.choice(CLASSES)
    cfg = {"class": klass, "faults": rng.random() < 0.6, "meta": rng.choice(META),
           "name": rng.choice([None, "hist", "my histogram", "\u00e9chantillon \u03b1"]), "title": rng.choice([None, None, "Title"]),
           "keep_missed": rng.random() < 0.8}
    n = rng.choice([0, 1, 3, 6, 12, 20])
    bulk = bulk_tier(rng)
    if bulk:
        n = rng.choice([500, 2000, 6000])  # documents of tens to hundreds of kilobytes
    if klass in ("h1", "h2", "h3", "collection"):
        ndim = {"h1": 1, "h2": 2, "h3": 3, "collection": 1}[klass]
        fams = ["static", "pairs", "numpy", "fixed", "exp", "adaptive", "near"] if ndim == 1 else \
            ["static", "numpy", "fixed", "exp", "adaptive", "pairs", "near"]
        axes = []
        adaptive = rng.random() < 0.2 and klass != "collection"
        for _ in range(ndim):
            if adaptive:
                axes.append({"kind": "fixed", "width": rng.choice([1.0, 0.5, 0.25, 2.0]), "count": rng.randint(1, 3),
                             "times_min": rng.randint(-3, 3), "adaptive": True})
            else:
                mb = (5 if ndim == 1 else 3) if not bulk else {1: 250, 2: 30, 3: 10}[ndim]
                axes.append(build.gen_axis(rng, max_bins=mb, min_bins=1 if not bulk else mb // 2,
                                           families=[f for f in fams if f != "adaptive"],
                                           # (members of a collection may be made adaptive below: a value one unit
                                           # outside bins of magnitude 1e-9 would mean 1e9 new bins)
                                           scaled=0.08 if klass != "collection" else 0.0))
        wkind = rng.choice(["none", "none", "int", "dyadic", "float", "tiny"])
        cfg.update({"ndim": ndim, "axes": axes, "weights": wkind,
                    "dtype": build.pick_dtype(rng, "float" if wkind == "tiny" else wkind),
                    "axis_names": rng.choice([None, None, ["x", "y", "z"][:ndim]])})
        if adaptive:
            cfg["dtype"] = rng.choice([None, "float64", "int64"]) if wkind in ("none", "int") else None
        elif rng.random() < 0.06:
            cfg["dtype"] = "float128"
        pools = [build.axis_pool(build.spec_bins(a)) for a in axes]
        entries = []
        for _ in range(n + 8):
            vals = [build.draw_value(rng, p) for p in pools]
            w = rng.choice([1e-12, 3e-12, 2.5e-10, 7e-9]) if wkind == "tiny" else build.draw_weight(rng, wkind)
            entries.append([vals[0] if ndim == 1 else vals, w])
        if klass == "collection":
            cfg["members"] = rng.randint(1, 3)
            # members own their binning objects: same edges, but possibly another right-edge rule / adaptivity
            cfg["member_variants"] = [
                {} if (m == 0 or rng.random() < 0.5) else
                {"ire": rng.random() < 0.5, "adaptive": axes[0]["kind"] == "fixed" and rng.random() < 0.4}
                for m in range(cfg["members"])]
    else:
        src_dim = {"polar": 2, "radial": rng.choice([2, 3]), "azimuthal": 2, "spherical": 3, "spherical_surface": 3,
                   "cylindrical": 3, "cylindrical_surface": 3}[klass]
        cfg.update({"ndim": src_dim, "weights": rng.choice(["none", "dyadic"]), "dtype": None})
        entries = []
        for _ in range(n + 8):
            pt = [rng.choice([0.0, 1.0, -1.0, 0.5, -2.5, 3.0, 1e-3, rng.uniform(-4, 4)]) for _ in range(src_dim)]
            entries.append([pt, build.draw_weight(rng, cfg["weights"])])
    cfg["initial"] = n
    # custom squared errors (given quantifier): far from, or only slightly different from, the contents
    cfg["errors"] = rng.choice([None, None, None, "custom", "near", "plus_few"])
    ops = []
    nxt = n
    can_fill = True
    for _ in range(rng.randint(2, 14) if not deep_tier(rng) else rng.randint(14, 40)):
        r = rng.random()
        if r < 0.22 and nxt < len(entries) and can_fill:
            k = rng.randint(1, min(3, len(entries) - nxt))
            ops.append({"op": "deliver", "idx": list(range(nxt, nxt + k)), "how": rng.choice(["fill", "fill_n"])})
            nxt += k
        elif r < 0.27:
            ops.append({"op": "transform", "how": rng.choice(["merge", "imul", "idiv", "set_dtype", "normalize",
                                                              "set_meta", "iadd_self", "set_adaptive_off", "imul_near_one",
                                                              "set_missed", "set_missed", "set_contents"]),
                        "arg": rng.randrange(64)})
        elif r < 0.40:
            ops.append({"op": "save", "path": rng.choice(PATHS), "via": rng.choice(["save_json", "to_json"]),
                        "indent": rng.choice([None, None, 2])})
        elif r < 0.55:
            ops.append({"op": "load", "path": rng.choice(PATHS)})
        elif r < 0.65:
            ops.append({"op": "parse"})
        elif r < 0.72:
            ops.append({"op": "edit_version", "path": rng.choice(PATHS),
                        "version": rng.choice(["99.0.0", "1000.1", "0.0.1", "0.3.20", "current", "current+"])})
        elif r < 0.84 and cfg["faults"]:
            kind = rng.choice(["open_fail", "enospc", "eio_close", "eio_read", "short_read"])
            site = {"open_fail": "open", "enospc": "write", "eio_close": "close", "eio_read": "read",
                    "short_read": "read"}[kind]
            ops.append({"op": "arm", "fault": {"site": site, "kind": kind, "after": rng.choice([0, 1, 17, 120, 5000] if not bulk else [120, 5000, 20000, 70000])}})
        elif r < 0.92:
            ops.append({"op": "checkpoint", "path": rng.choice(PATHS)})
        elif cfg["faults"]:
            ops.append({"op": "crash", "torn": rng.choice([None, None, 0, 1, 40, 300] if not bulk else [None, 300, 9000, 40000]),
                        "during_save": rng.random() < 0.5, "path": rng.choice(PATHS)})
    return {"property": PROPERTY, "scenario": "persistence", "config": cfg, "entries": entries, "ops": ops}


# ----------------------------------------------------------------------------
# node construction / delivery
# ----------------------------------------------------------------------------
EDGES_R = np.array([0.0, 1.0, 2.0, 4.0, 8.0])
EDGES_Z = np.array([-4.0, -1.0, 0.0, 1.0, 4.0])


def make_node(cfg, entries):
    import physt
    from physt.histogram1d import Histogram1D
    from physt.histogram_collection import HistogramCollection

    klass = cfg["class"]
    idx = list(range(min(cfg["initial"], len(entries))))
    ndim = cfg["ndim"]
    data = np.asarray([entries[i][0] for i in idx], dtype=float).reshape(len(idx), ndim)
    wk = cfg["weights"]
    weights = None if wk == "none" else np.asarray([entries[i][1] for i in idx],
                                                   dtype=np.int64 if wk == "int" else np.float64)
    kw = {} if weights is None else {"weights": weights}
    if klass in ("h1", "h2", "h3"):
        hs = {"axes": cfg["axes"], "dtype": cfg["dtype"], "keep_missed": cfg["keep_missed"]}
        h = build.make_empty(hs)
        if len(idx):
            h.fill_n(data[:, 0] if ndim == 1 else data, **kw)
    elif klass == "collection":
        members = []
        for m in range(cfg["members"]):
            var = (cfg.get("member_variants") or [{}] * cfg["members"])[m]
            spec = dict(cfg["axes"][0])
            if var:
                spec["ire"] = var["ire"]
                if var.get("adaptive"):
                    spec["adaptive"] = True
            mh = Histogram1D(build.make_binning(spec), name=f"m{m}",
                             **({"dtype": np.dtype(cfg["dtype"])} if cfg["dtype"] else {}))
            sel = [k for k in range(len(idx)) if k % cfg["members"] == m]
            if sel and mh.is_adaptive():
                # bounded growth: an adaptive member only receives values within 200 bin widths of its bins
                b_ = np.asarray(mh.bins, dtype=float)
                w_ = float(b_[0, 1] - b_[0, 0])
                sel = [k for k in sel if b_[0, 0] - 200 * w_ <= data[k, 0] <= b_[-1, 1] + 200 * w_]
            if sel:
                mh.fill_n(data[sel, 0], **({} if weights is None else {"weights": weights[sel]}))
            members.append(mh)
        return HistogramCollection(*members, name=cfg["name"], title=cfg["title"])
    else:
        if len(idx) == 0:
            data = np.zeros((1, ndim)) + 0.5
            kw = {} if weights is None else {"weights": np.asarray([1.0])}
        if klass == "polar":
            h = physt.polar(data[:, 0], data[:, 1], radial_bins=EDGES_R, phi_bins=4, **kw)
        elif klass == "radial":
            h = physt.radial(data, bins=EDGES_R, **kw) if ndim == 3 else physt.radial(data[:, 0], data[:, 1], bins=EDGES_R, **kw)
        elif klass == "azimuthal":
            h = physt.azimuthal(data[:, 0], data[:, 1], bins=6, **kw)
        elif klass == "spherical":
            h = physt.spherical(data, radial_bins=EDGES_R, theta_bins=3, phi_bins=4, **kw)
        elif klass == "spherical_surface":
            h = physt.spherical_surface(data, theta_bins=3, phi_bins=4, **kw)
        elif klass == "cylindrical":
            h = physt.cylindrical(data, rho_bins=EDGES_R, phi_bins=4, z_bins=EDGES_Z, **kw)
        else:
            h = physt.cylindrical(data, rho_bins=EDGES_R, phi_bins=4, z_bins=EDGES_Z, **kw).projection("phi", "z")
    if cfg.get("errors"):
        f = np.asarray(h.frequencies)
        if cfg["errors"] == "custom":
            h.errors2 = (f * 2 + 1).astype(h.dtype)
        elif cfg["errors"] == "near" and np.dtype(h.dtype).kind == "f":
            h.errors2 = (f * (1 + 2e-6)).astype(h.dtype)
        elif cfg["errors"] == "plus_few":
            big = h.copy()
            big *= 100000
            big.errors2 = (np.asarray(big.frequencies) + (np.arange(f.size).reshape(f.shape) % 7)).astype(big.dtype)
            h = big
    if cfg.get("name"):
        h.name = cfg["name"]
    if cfg.get("title"):
        h.title = cfg["title"]
    if cfg.get("axis_names"):
        h.axis_names = cfg["axis_names"]
    for k, v in cfg.get("meta", {}).items():
        h.meta_data[k] = v
    return h


def transform(cfg, h, op):
    """In-place change of a live node (so that saved objects have varied internal states)."""
    from physt.histogram_collection import HistogramCollection

    targets = h.histograms if isinstance(h, HistogramCollection) else [h]
    how, arg = op["how"], op["arg"]
    for t in targets:  # applicability first: a collection is transformed as a whole or not at all
        if how == "merge" and (isinstance(h, HistogramCollection) or any(s < 2 for s in t.shape)):
            return False
        if how == "normalize" and not t.total > 0:
            return False
        if how == "set_adaptive_off" and (isinstance(h, HistogramCollection) or not t.is_adaptive()):
            return False
    for t in targets:
        if how == "merge":
            if isinstance(h, HistogramCollection) or any(s < 2 for s in t.shape):
                return False
            t.merge_bins(2, axis=arg % t.ndim, inplace=True)
        elif how == "imul":
            t *= [2, 0.5, 3][arg % 3]
        elif how == "imul_near_one":
            t *= [1.000002, 0.999999, 1.0000001][arg % 3]
        elif how == "idiv":
            t /= [2, 4][arg % 2]
        elif how == "set_dtype":
            t.set_dtype([np.float64, np.float32, np.float64][arg % 3])
        elif how == "normalize":
            if not t.total > 0:
                return False
            t.normalize(inplace=True)
        elif how == "set_meta":
            t.meta_data[f"k{arg % 3}"] = [arg, "v", {"n": None}]
            t.title = f"t{arg % 5}"
        elif how == "iadd_self":
            t += t.copy()
        elif how == "set_adaptive_off":
            if isinstance(h, HistogramCollection) or not t.is_adaptive():
                return False
            t.set_adaptive(False)
        elif how == "set_missed":
            # the missed counters assigned through their property setters (whole, fractional, unknown)
            if t.ndim != 1 or not t.keep_missed:
                return False  # (a histogram that keeps no track of missed values has no counters to assign)
            val = [3, 2.5, 0.25, math.nan, 0, 1e-12, 7.0][arg % 7]
            which = ["underflow", "overflow", "inner_missed"][(arg >> 3) % 3]
            setattr(t, which, val)
        elif how == "set_contents":
            # contents / squared errors assigned through their property setters
            f = np.asarray(t.frequencies)
            if (arg >> 3) % 2:
                t.frequencies = (f * 2).tolist() if arg % 2 else f + 1
            else:
                t.errors2 = np.asarray(t.errors2) * 1.5 + 0.5 if np.dtype(t.dtype).kind == "f" else np.asarray(t.errors2) + 2
    return True


def deliver(cfg, entries, h, op):
    """Apply one delivery op to a histogram (plain classes: fill or fill_n; transformed: fill_n)."""
    from physt.histogram_collection import HistogramCollection

    idx = [i for i in op["idx"] if i < len(entries)]
    ndim = cfg["ndim"]
    target = h.histograms[0] if isinstance(h, HistogramCollection) else h
    if cfg["class"] == "cylindrical_surface":
        return  # a projection result: not fed further here
    special = cfg["class"] not in ("h1", "h2", "h3", "collection")
    if op["how"] == "fill" and not special:
        for i in idx:
            v, w = entries[i]
            if w is None:
                target.fill(v)
            else:
                target.fill(v, w)
    else:
        data = np.asarray([entries[i][0] for i in idx], dtype=float).reshape(len(idx), ndim)
        wk = cfg["weights"]
        kw = {} if wk == "none" else {"weights": np.asarray([entries[i][1] for i in idx],
                                                            dtype=np.int64 if wk == "int" else np.float64)}
        if special and cfg["class"] in ("radial", "azimuthal"):
            target.fill_n(data, **kw)
        else:
            target.fill_n(data[:, 0] if (ndim == 1 and not special) else data, **kw)


# ----------------------------------------------------------------------------
# oracle
# ----------------------------------------------------------------------------
def roundtrip_problems(orig, loaded):
    """List of (field, message) where the loaded object differs from the original."""
    from physt.histogram_collection import HistogramCollection

    probs = []
    if type(loaded) is not type(orig):
        return [("class", f"class {type(loaded).__name__} instead of {type(orig).__name__}")]
    if isinstance(orig, HistogramCollection):
        if len(orig.histograms) != len(loaded.histograms):
            return [("members", f"{len(loaded.histograms)} members instead of {len(orig.histograms)}")]
        for k, (a, b) in enumerate(zip(orig.histograms, loaded.histograms)):
            probs += [(f, f"member {k}: {m}") for f, m in roundtrip_problems(a, b)]
        return probs
    ok, eq = attempt(lambda: bool(loaded == orig))
    if not ok or not eq:
        probs.append(("==", f"loaded == original is {eq!r}"))
    sa, sb = snap(orig), snap(loaded)
    for field in snap_diff(sa, sb, ignore=("stats",)):
        if field == "axes":
            for ax, (x, y) in enumerate(zip(sa["axes"], sb["axes"])):
                if x != y:
                    what = "binning-type" if x[0] != y[0] else ("edges" if x[1] != y[1] else
                                                                ("adaptive" if x[2] != y[2] else "includes_right_edge"))
                    probs.append((f"axes/{what}", f"axis {ax}: {x[0]} adaptive={x[2]} ire={x[3]} became {y[0]} "
                                                  f"adaptive={y[2]} ire={y[3]}" + (" (edges differ)" if x[1] != y[1] else "")))
        elif field == "missed":
            probs.append(("missed", f"missed bookkeeping {describe_missed(orig)} became {describe_missed(loaded)}"))
        elif field == "meta":
            probs.append(("meta", f"metadata {sa['meta']} became {sb['meta']}"))
        elif field in ("freq", "err2"):
            probs.append((field, f"{field}: dtype/shape/bytes differ: {sa[field][:2]} vs {sb[field][:2]}"))
        else:
            probs.append((field, f"{field}: {sa[field]!r} became {sb[field]!r}"))
    return probs


def describe_missed(h):
    if h.ndim == 1 and hasattr(h, "underflow"):
        return f"(underflow={h.underflow!r}, overflow={h.overflow!r}, inner={h.inner_missed!r}, keep={h.keep_missed})"
    return f"(missed={h.missed!r}, keep={h.keep_missed})"


def execute(plan, ctx):
    import physt.io.json as pj
    from physt.io import load_json, parse_json, save_json
    from physt.io.version import CURRENT_VERSION, VersionError

    cfg = plan["config"]
    entries = plan["entries"]
    klass = cfg["class"]
    ok, acc = attempt(make_node, cfg, entries)
    if not ok:
        ctx.probe("setup_failed:" + type(acc).__name__)
        return
    ok, replica = attempt(make_node, cfg, entries)
    fs = SimFS(ctx)
    ctx.state(klass, cfg.get("dtype"), cfg["keep_missed"], tuple(a["kind"] for a in cfg.get("axes", [])))
    if acc is not None and hasattr(acc, "underflow") and any(
            isinstance(x, float) and math.isnan(x) for x in (float(acc.underflow), float(acc.overflow))) and acc.keep_missed:
        ctx.fault("nan_missed_marker")
    saved = {}  # path -> (snapshot-able copy of what was saved, text) for complete, fault-free saves
    log = []  # delivery ops applied so far (for resume)
    ckpt = None  # (path, len(log), text of the durable checkpoint document)
    uncertain = set()  # paths whose content is not asserted (failed / torn writes)

    def check_loaded(orig, loaded, text, how):
        for field, msg in roundtrip_problems(orig, loaded):
            ctx.violation("C08/roundtrip-exact", f"C08/roundtrip/{field}/{type(orig).__name__}",
                          f"{how}: {msg}; original {orig!r}")
        if text is not None:
            ok2, text2 = attempt(loaded.to_json)
            if not ok2:
                ctx.violation("C08/second-serialisation", f"C08/reserialise-raised/{type(orig).__name__}/{exc_tag(text2)}",
                              f"{how}: to_json() of the loaded object raised {text2!r}")
            if json.loads(text2) != json.loads(text) and not nan_equal_json(text, text2):
                d = json_diff(json.loads(text), json.loads(text2))
                ctx.violation("C08/second-serialisation", f"C08/reserialise-differs/{type(orig).__name__}/{d[0]}",
                              f"{how}: serialising the parsed object again gives a different document at {d}")

    with mounted(fs):
        for step, op in enumerate(plan["ops"]):
            ctx.step = step
            ctx.advance()
            o = op["op"]
            if o == "deliver":
                ok, res = attempt(deliver, cfg, entries, acc, op)
                ok2, res2 = attempt(deliver, cfg, entries, replica, op)
                ctx.ev("src", f"deliver:{op['how']}", len(op["idx"]), "ok" if ok else exc_tag(res))
                ctx.abstract("deliver", op["how"], ok)
                if not ok or not ok2:
                    ctx.probe("deliver_failed:" + type(res if not ok else res2).__name__)
                    return
                log.append(op)
            elif o == "transform":
                if klass == "cylindrical_surface" and op["how"] in ("merge",):
                    continue
                ok, res = attempt(transform, cfg, acc, op)
                ok2, res2 = attempt(transform, cfg, replica, op)
                ctx.ev("src", f"transform:{op['how']}", None, "ok" if ok else exc_tag(res))
                ctx.abstract("transform", op["how"], ok)
                if not ok or not ok2:
                    ctx.probe(f"transform_failed:{op['how']}:" + type(res if not ok else res2).__name__)
                    return
                if res:
                    log.append(op)
            elif o == "save":
                path = op["path"]
                existed = fs.exists(path)
                kw = {} if op.get("indent") is None else {"indent": op["indent"]}
                armed = [f for f in fs.plan if f["site"] in ("open", "write", "close")]
                pre = snap(acc)
                if op["via"] == "to_json":
                    ok, text = attempt(acc.to_json, path, **kw)
                else:
                    ok, text = attempt(save_json, acc, path, **kw)
                fs.plan = [f for f in fs.plan if f["site"] not in ("open", "write", "close")]
                ctx.ev("fs", f"save:{op['via']}", path, "ok" if ok else exc_tag(text))
                ctx.abstract("save", klass, bool(armed), ok)
                if snap_diff(pre, snap(acc)):
                    ctx.violation("C08/save-is-readonly", f"C08/save-modified-histogram/{type(acc).__name__}",
                                  f"saving changed the histogram: {snap_diff(pre, snap(acc))}")
                if not ok:
                    if not armed:
                        ctx.violation("C08/save-works", f"C08/save-raised/{type(acc).__name__}/{exc_tag(text)}",
                                      f"{op['via']}({path!r}) without any injected fault raised {text!r}")
                    uncertain.add(path)
                    saved.pop(path, None)
                    continue
                if existed:
                    ctx.fault("overwrite")
                uncertain.discard(path)
                ok_c, cp = attempt(copy_of, acc)
                saved[path] = (cp if ok_c else None, text)
                # a save that returned normally must have produced a complete document
                if fs.visible(path) != text:
                    ctx.violation("C08/acknowledged-save-is-complete", f"C08/file!=returned-text/{op['via']}",
                                  f"{op['via']} returned normally but the file holds {len(fs.visible(path) or '')} characters, "
                                  f"the document has {len(text)}" + (" (an armed fault was swallowed)" if armed else ""))
            elif o == "load":
                path = op["path"]
                if not fs.exists(path):
                    continue
                armed = [f for f in fs.plan if f["site"] in ("open", "read")]
                ok, loaded = attempt(load_json, path)
                fs.plan = [f for f in fs.plan if f["site"] not in ("open", "read")]
                ctx.ev("fs", "load", path, "ok" if ok else exc_tag(loaded))
                ctx.abstract("load", klass, bool(armed), path in uncertain, ok)
                if path in uncertain or path not in saved:
                    if ok:
                        ctx.probe("load_of_unasserted_file_succeeded")
                    continue
                orig, text = saved[path]
                if armed:
                    # a faulty read may fail, never return wrong data: compare with a fault-free parse of the document
                    ok_ref, ref = attempt(parse_json, text)
                    if ok and ok_ref and roundtrip_problems(ref, loaded):
                        ctx.violation("C08/faulty-read-never-wrong-data", f"C08/wrong-data-after-read-fault/{armed[0]['kind']}",
                                      f"load_json under an injected {armed[0]['kind']} returned a histogram that differs from "
                                      f"what the stored document describes: {roundtrip_problems(ref, loaded)[:2]}")
                    continue
                if not ok:
                    if isinstance(loaded, VersionError):
                        continue  # version was edited to a newer one: judged at edit_version
                    ctx.violation("C08/load-works", f"C08/load-raised/{klass}/{exc_tag(loaded)}",
                                  f"load_json of a completely saved document raised {loaded!r}")
                if orig is not None:
                    check_loaded(orig, loaded, text, f"load_json({path!r})")
            elif o == "parse":
                ok, text = attempt(acc.to_json)
                if not ok:
                    ctx.violation("C08/save-works", f"C08/to_json-raised/{type(acc).__name__}/{exc_tag(text)}",
                                  f"to_json() raised {text!r}")
                ok, loaded = attempt(parse_json, text)
                ctx.ev("fs", "parse", None, "ok" if ok else exc_tag(loaded))
                ctx.abstract("parse", klass, ok)
                if not ok:
                    ctx.violation("C08/load-works", f"C08/parse-raised/{klass}/{exc_tag(loaded)}",
                                  f"parse_json(h.to_json()) raised {loaded!r}")
                check_loaded(acc, loaded, text, "parse_json(to_json())")
            elif o == "edit_version":
                path = op["path"]
                if path not in saved or path in uncertain:
                    continue
                orig, text = saved[path]
                doc = json.loads(text)
                v = op["version"]
                if v == "current":
                    v = CURRENT_VERSION
                newer = v not in ("0.0.1", "0.3.20", CURRENT_VERSION)
                if v == "current+":
                    parts = CURRENT_VERSION.split(".")
                    parts[-1] = str(int("".join(ch for ch in parts[-1] if ch.isdigit()) or 0) + 1)
                    v = ".".join(parts)
                    newer = True
                doc["physt_compatible"] = v
                fs.set_text(path, json.dumps(doc))
                held, fs.plan = fs.plan, []  # version handling is judged without I/O faults
                ok, loaded = attempt(load_json, path)
                fs.plan = held
                ctx.ev("fs", f"load-version:{'newer' if newer else 'older'}", path, "ok" if ok else exc_tag(loaded))
                ctx.abstract("edit_version", newer, ok)
                if newer:
                    ctx.fault("version_newer")
                    if ok:
                        ctx.violation("C08/newer-version-refused", "C08/newer-version-accepted",
                                      f"a document requiring physt >= {v} was loaded by physt {CURRENT_VERSION}")
                elif not ok:
                    ctx.violation("C08/load-works", f"C08/compatible-version-refused/{exc_tag(loaded)}",
                                  f"a document requiring physt >= {v} was refused by physt {CURRENT_VERSION}: {loaded!r}")
                fs.set_text(path, text)
            elif o == "arm":
                fs.arm(op["fault"])
                ctx.ev("fs", "arm", op["fault"]["kind"], op["fault"].get("after"))
            elif o == "checkpoint":
                path = op["path"]
                tmp = path + ".tmp"
                armed = bool(fs.plan)
                ok, text = attempt(save_json, acc, tmp)
                fs.plan = [f for f in fs.plan if f["site"] not in ("open", "write", "close")]
                ctx.ev("fs", "checkpoint", path, "ok" if ok else exc_tag(text))
                ctx.abstract("checkpoint", klass, armed, ok)
                if ok:
                    if fs.visible(tmp) != text:
                        ctx.violation("C08/acknowledged-save-is-complete", "C08/file!=returned-text/checkpoint",
                                      "save_json returned normally but the temp file is incomplete")
                    if not fs.exists(tmp):
                        continue
                    fs.sync(tmp)
                    fs.rename(tmp, path)
                    ok_c, cp = attempt(copy_of, acc)
                    saved[path] = (cp if ok_c else None, text)
                    uncertain.discard(path)
                    ckpt = (path, len(log), text)
                    ctx.fault("checkpoint")
                elif fs.exists(tmp):
                    del fs.files[tmp]
            elif o == "crash":
                torn = None
                if op.get("during_save"):
                    # death in the middle of a save: part of the text may have reached the disk
                    path = op["path"]
                    ok_t, text = attempt(acc.to_json)
                    if ok_t:
                        k = len(text) if op.get("torn") is None else min(len(text) - 1, op["torn"])
                        old = fs.files.get(path, {"durable": None})["durable"]
                        fs.files[path] = {"visible": text[:max(k, 0)], "durable": old}
                        if op.get("torn") is not None:
                            torn = {path: max(k, 0)}
                            ctx.fault("crash_torn")
                        uncertain.add(path)
                        saved.pop(path, None)
                fs.crash(torn)
                ctx.fault("crash_restart")
                ctx.ev("proc", "crash", None, "torn" if torn else "clean")
                ctx.abstract("crash", bool(torn), ckpt is not None)
                for p in list(saved):
                    if not fs.exists(p) or fs.visible(p) != saved[p][1]:
                        saved.pop(p)
                        if fs.exists(p):
                            uncertain.add(p)
                for p in PATHS:
                    if fs.exists(p) and p not in saved:
                        uncertain.add(p)
                        okl, got = attempt(load_json, p)
                        if okl:
                            ctx.probe("torn_or_stale_file_loaded")
                # restart: only durable state survives
                acc = None
                if ckpt is not None and fs.visible(ckpt[0]) == ckpt[2]:
                    ok, acc = attempt(load_json, ckpt[0])
                    ctx.ev("proc", "restart-from-checkpoint", ckpt[0], "ok" if ok else exc_tag(acc))
                    if not ok:
                        ctx.violation("C08/load-works", f"C08/load-raised/{klass}/{exc_tag(acc)}",
                                      f"restart: load_json of the last complete checkpoint raised {acc!r}")
                    todo = log[ckpt[1]:]
                else:
                    ok, acc = attempt(make_node, cfg, entries)
                    ctx.ev("proc", "restart-from-scratch", None, "ok" if ok else exc_tag(acc))
                    todo = list(log)
                    ckpt = None
                for d in todo:
                    if d["op"] == "transform":
                        ok, res = attempt(transform, cfg, acc, d)
                    else:
                        ok, res = attempt(deliver, cfg, entries, acc, d)
                    if not ok:
                        ctx.violation("C08/resume", f"C08/resume-delivery-raised/{klass}/{exc_tag(res)}",
                                      f"after restart, re-delivering the stream to the restored histogram raised {res!r}")
        # final: the restarted accumulator equals the replica that never crashed
        if acc is not None and replica is not None:
            from physt.histogram_collection import HistogramCollection

            pairs = list(zip(acc.histograms, replica.histograms)) if isinstance(acc, HistogramCollection) else [(acc, replica)]
            for a, b in pairs:
                d = snap_diff(snap(a), snap(b), ignore=("stats",))
                if d:
                    ctx.violation("C08/resume", f"C08/resumed!=never-crashed/{d[0]}/{type(b).__name__}",
                                  f"after checkpoint/crash/restart/resume the accumulator differs from the replica that "
                                  f"never crashed in {d}: {describe_missed(a)} vs {describe_missed(b)}; "
                                  f"{a!r} vs {b!r}")


def copy_of(h):
    import copy

    return copy.deepcopy(h)


def nan_equal_json(a, b):
    """Documents equal when NaN == NaN (json.loads gives float nan which is != itself)."""
    return json.dumps(json.loads(a), sort_keys=True) == json.dumps(json.loads(b), sort_keys=True)


def json_diff(a, b, path=""):
    if type(a) is not type(b):
        return (path or "/", f"{a!r} vs {b!r}")
    if isinstance(a, dict):
        for k in sorted(set(a) | set(b)):
            if k not in a or k not in b:
                return (f"{path}/{k}", "missing on one side")
            d = json_diff(a[k], b[k], f"{path}/{k}")
            if d:
                return d
        return None
    if isinstance(a, list):
        if len(a) != len(b):
            return (path, f"length {len(a)} vs {len(b)}")
        for i, (x, y) in enumerate(zip(a, b)):
            d = json_diff(x, y, f"{path}[{i}]")
            if d:
                return d
        return None
    if a != b and not (isinstance(a, float) and isinstance(b, float) and math.isnan(a) and math.isnan(b)):
        return (path, f"{a!r} vs {b!r}")
    return None
