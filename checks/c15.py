"""C15 - transformed histograms bin points by their true coordinates.

Entry-path equivalence on transformed nodes: one stream of Cartesian points
(all quadrants/octants, on the axes, the origin, signed zeros) reaches
replicas of one special class over equal bins by different entry paths -
facade function, fill per point, fill_n batches, and (after the harness
applies Class.transform itself) the same three paths with transformed=True -
with the deliveries of the replicas interleaved.  At every barrier all
replicas must agree exactly; per point, fill's return == find_bin(point) ==
find_bin(transform(point), transformed=True); transform must satisfy the range
constraints and the inverse formulas; projections must have the mapped special
class and the marginal contents; wrong dimensionality must be refused and
change nothing.
"""
from __future__ import annotations

import math

import numpy as np

import sim  # noqa: F401
from sim import build
from sim.core import attempt, bulk_tier, exc_tag
from sim.oracle import arrays_equal, first_diff, missed_tuple, snap, snap_diff

PROPERTY = "C15"
LEVEL = "exploration"
RUNS = {"quick": 30000, "thorough": 800000}
WALL = {"quick": 240, "thorough": 1500}
PARTITIONS = [{"name": "default", "env": {}}]
FAULT_KINDS = ["adaptive_axis_growth", "rebinned_between_entries", "refused_fill_midstream", "extreme_magnitude", "reorder", "batch_split", "interleave", "axis_point", "origin_point", "signed_zero", "outside_radius",
               "wrong_dimension_probe", "projection", "transformed_path"]
RULE = ("one run = one special class (polar, radial 2-D/3-D, azimuthal, spherical, spherical-surface, cylindrical) "
        "over seeded bins, a stream of <= 24 Cartesian points drawn from axis/origin/signed-zero/quadrant pools, and "
        "3-6 replicas fed through different entry paths (facade, fill, fill_n, and the three transformed=True paths) "
        "whose deliveries are interleaved; plus projections, wrong-dimension probes, entries on an adaptive radial axis "
        "and entries on a histogram that was used, re-binned in place and used again; distinct = distinct sequence "
        "of (path, class, outcome); non-trivial = at least two different entry paths delivered points")
COMPONENTS = {
    "real": ["TransformedHistogramMixin.find_bin/fill/fill_n/transform/_validate_source_dimension/projection",
             "_transform_correct_dimension of all special classes, _projection_class_map",
             "facades polar/azimuthal/radial/spherical/spherical_surface/cylindrical, extract_transformed_data",
             "Histogram1D/HistogramND fill, fill_n, find_bin that the mixin delegates to", "numpy"],
    "simulated": ["the point source and the schedule of entry paths / batching / interleaving of replicas"],
}
ASSUMPTIONS = [
    "path equivalence is exact (all paths run the same transform); correctness of the formulas is judged through "
    "the inverse mapping with 1e-9*(1+r) and range constraints, never by bit-comparing with math.atan2",
    "weights none or dyadic, so that all sums are exact in every order",
]

CLASSES = ["polar", "radial2", "radial3", "azimuthal", "spherical", "spherical_surface", "cylindrical"]
SRC_DIM = {"polar": 2, "radial2": 2, "radial3": 3, "azimuthal": 2, "spherical": 3, "spherical_surface": 3,
           "cylindrical": 3}
PATHS = ["facade", "fill", "fill_n", "fill_t", "fill_n_t", "facade_t"]
COORDS = [0.0, -0.0, 1.0, -1.0, 0.5, -0.5, 2.0, -2.0, 3.0, -3.5, 1e-3, -1e-3, 6.0, -7.0, 12.0]


def generate(rng, seed, part):
    klass = rng.choice(CLASSES)
    d = SRC_DIM[klass]
    n = rng.choice([1, 2, 4, 8, 16, 24])
    bulk = bulk_tier(rng)
    if bulk:
        n = rng.choice([2500, 5000, 9000])  # entered in batches of thousands
    pts = []
    for _ in range(n):
        r = rng.random()
        if r < 0.15:
            p = [0.0] * d
            p[rng.randrange(d)] = rng.choice(COORDS)  # on an axis
        elif r < 0.22:
            p = [rng.choice([0.0, -0.0]) for _ in range(d)]  # origin with signed zeros
        elif r < 0.6:
            p = [rng.choice(COORDS) for _ in range(d)]
        else:
            p = [round(rng.uniform(-5, 5), 3) for _ in range(d)]
        pts.append(p)
    weights = None if rng.random() < 0.6 else [rng.randint(0, 32) / 8.0 for _ in range(n)]
    k = rng.randint(3, 6)
    paths = ["facade"] + [rng.choice(PATHS[1:]) for _ in range(k - 1)]
    if bulk:
        k = rng.randint(2, 3)
        paths = ["facade"] + [rng.choice(["fill_n", "fill_n_t", "facade_t"]) for _ in range(k - 1)]
    rng.shuffle(paths)
    vtype = rng.choice(["f64", "f64", "f32"])
    if vtype == "f32":
        pts = [build.q32(p) for p in pts]
    cfg = {"class": klass, "vtype": vtype, "phi_bins": rng.choice([1, 3, 4, 8]), "theta_bins": rng.choice([1, 2, 5]),
           "r_edges": rng.choice([[0.0, 1.0, 2.0, 4.0, 8.0], [0.0, 0.5, 5.0], [1.0, 2.0, 3.0], [0.0, 20.0]]),
           "z_edges": rng.choice([[-4.0, -1.0, 0.0, 1.0, 4.0], [-10.0, 10.0], [0.0, 1.0, 2.0]]),
           "paths": paths, "weights": weights}
    if rng.random() < 0.08:
        # "all finite points": the same scene at an extreme magnitude (the squares of the coordinates are not
        # representable, the radius is); powers of two, so the geometry is bit-for-bit the same
        scale = rng.choice([2.0 ** 600, 2.0 ** -600, 2.0 ** 520, 2.0 ** -480])
        if vtype == "f32":
            cfg["vtype"] = vtype = "f64"
            # (pts were quantised to float32 above; still exact doubles)
        pts = [[x * scale for x in p] for p in pts]
        cfg["r_edges"] = [e * scale for e in cfg["r_edges"]]
        cfg["z_edges"] = [e * scale for e in cfg["z_edges"]]
        cfg["scale"] = scale
    ops = []
    n_ep = rng.randint(1, 2) if n > 2 else 1
    cut = rng.randint(1, n - 1) if n_ep == 2 else n
    bounds = [0, cut, n] if n_ep == 2 else [0, n]
    for ep in range(n_ep):
        idx = list(range(bounds[ep], bounds[ep + 1]))
        queues = []
        for r_id, path in enumerate(paths):
            q = []
            if path in ("facade", "facade_t"):
                if ep == 0:
                    q.append({"r": r_id, "op": "construct", "idx": idx})
                else:
                    q.append({"r": r_id, "op": "batch", "idx": idx})
            elif path in ("fill", "fill_t"):
                order = list(idx)
                rng.shuffle(order)
                q += [{"r": r_id, "op": "point", "i": i} for i in order]
                if q and rng.random() < 0.2:
                    # a fill that is refused somewhere in the middle of the element-wise stream: whatever it left
                    # behind must not change how the next points are binned
                    q.insert(rng.randrange(len(q)), {"r": r_id, "op": "refused_fill",
                                                      "how": rng.choice(["several_points", "wrong_length_transformed",
                                                                         "bad_weight"])})
            else:
                order = list(idx)
                rng.shuffle(order)
                j = 0
                while j < len(order):
                    m = rng.randint(1, min(6, len(order) - j))
                    if bulk:
                        m = min(len(order) - j, rng.choice([40, 2048, 3000, 5000, len(order)]))
                    q.append({"r": r_id, "op": "batch", "idx": order[j:j + m]})
                    j += m
            queues.append(q)
        while any(queues):
            q = rng.choice([x for x in queues if x])
            ops.append(q.pop(0))
        ops.append({"op": "barrier"})
    for _ in range(rng.randint(0, 2)):
        ops.append({"op": "projection", "r": rng.randrange(k), "arg": rng.randrange(16),
                    # the axes may carry the user's own names, be addressed by name, and a projection be projected again
                    "rename": rng.random() < 0.3, "by_name": rng.random() < 0.3, "again": rng.randrange(4)})
    if klass in ("polar", "spherical", "cylindrical", "radial2", "radial3") and rng.random() < 0.3:
        # the same entry-path agreement on a histogram whose radial axis is adaptive and has to grow for the point
        for _ in range(rng.randint(1, 3)):
            ops.append({"op": "adaptive_entry", "r": 0, "i": rng.randrange(n), "stretch": rng.choice([3.0, 7.5, 12.0])})
    if rng.random() < 0.3:
        # entry-path agreement on a histogram that was *used* (find_bin / fill), then re-binned in place (once or
        # twice), then used again: whatever the first use left behind must not decide where later points go
        ops.append({"op": "rebinned_entry", "r": 0, "use": [rng.randrange(n) for _ in range(rng.randint(1, 3))],
                    "use_how": rng.choice(["find_bin", "fill", "both"]),
                    "merges": [{"amount": rng.choice([2, 2, 3]), "axis": rng.choice([None, None, 0, -1])}
                               for _ in range(rng.randint(1, 2))],
                    "after": [rng.randrange(n) for _ in range(rng.randint(1, 4))]})
    for _ in range(rng.randint(0, 2)):
        ops.append({"op": "wrong_dim", "r": rng.randrange(k), "how": rng.choice(["fill", "fill_n", "find_bin", "transform"]),
                    "delta": rng.choice([-1, 1, 2])})
    return {"property": PROPERTY, "scenario": "entry_paths", "config": cfg, "entries": pts, "ops": ops}


# ----------------------------------------------------------------------------
def klass_of(name):
    from physt import special_histograms as sp

    return {"polar": sp.PolarHistogram, "radial2": sp.RadialHistogram, "radial3": sp.RadialHistogram,
            "azimuthal": sp.AzimuthalHistogram, "spherical": sp.SphericalHistogram,
            "spherical_surface": sp.SphericalSurfaceHistogram, "cylindrical": sp.CylindricalHistogram}[name]


def make_bins(cfg):
    """Fresh binning objects for the class (same edges for every replica)."""
    from physt.binnings import StaticBinning

    r = StaticBinning(np.asarray(cfg["r_edges"], dtype=float))
    phi = StaticBinning(np.linspace(0, 2 * np.pi, cfg["phi_bins"] + 1))
    theta = StaticBinning(np.linspace(0, np.pi, cfg["theta_bins"] + 1))
    z = StaticBinning(np.asarray(cfg["z_edges"], dtype=float))
    return {"polar": [r, phi], "radial2": [r], "radial3": [r], "azimuthal": [phi], "spherical": [r, theta, phi],
            "spherical_surface": [theta, phi], "cylindrical": [r, phi, z]}[cfg["class"]]


def make_empty(cfg):
    K = klass_of(cfg["class"])
    bins = make_bins(cfg)
    if len(bins) == 1:
        return K(bins[0])
    return K(binnings=bins)


def facade(cfg, pts, weights, transformed):
    import physt

    name = cfg["class"]
    pts = np.asarray(pts, dtype=float)
    kw = {} if weights is None else {"weights": np.asarray(weights, dtype=float)}
    if transformed:
        kw["transformed"] = True
    r_edges = np.asarray(cfg["r_edges"], dtype=float)
    z_edges = np.asarray(cfg["z_edges"], dtype=float)
    if name == "polar":
        return physt.polar(pts[:, 0], pts[:, 1], radial_bins=r_edges, phi_bins=cfg["phi_bins"], **kw)
    if name in ("radial2", "radial3"):
        if transformed:
            return physt.radial(pts.reshape(-1), bins=r_edges, **kw)
        if name == "radial2":
            return physt.radial(pts[:, 0], pts[:, 1], bins=r_edges, **kw)
        return physt.radial(pts[:, 0], pts[:, 1], pts[:, 2], bins=r_edges, **kw) if len(pts) % 2 else \
            physt.radial(pts, bins=r_edges, **kw)
    if name == "azimuthal":
        if transformed:
            return physt.azimuthal(pts.reshape(-1), bins=cfg["phi_bins"], **kw)
        return physt.azimuthal(pts[:, 0], pts[:, 1], bins=cfg["phi_bins"], **kw)
    if name == "spherical":
        return physt.spherical(pts, radial_bins=r_edges, theta_bins=cfg["theta_bins"], phi_bins=cfg["phi_bins"], **kw)
    if name == "spherical_surface":
        return physt.spherical_surface(pts, theta_bins=cfg["theta_bins"], phi_bins=cfg["phi_bins"], **kw)
    return physt.cylindrical(pts, rho_bins=r_edges, phi_bins=cfg["phi_bins"], z_bins=z_edges, **kw)


def check_transform(ctx, name, p, t):
    """Range constraints and inverse formulas for one point."""
    p = [float(x) for x in p]
    t = np.atleast_1d(np.asarray(t, dtype=float)).tolist()
    r3 = math.hypot(*p)  # (scaled internally: no overflow / underflow of the squares)
    rho = math.hypot(p[0], p[1])
    tol = 1e-9 * r3  # relative: points of magnitude 1e-180 are judged as strictly as points of magnitude 1

    def bad(msg):
        ctx.violation("C15/true-coordinates", f"C15/transform/{name}/{msg.split(' ')[0]}",
                      f"{name}.transform({p}) = {t}: {msg}")

    def chk_phi(phi):
        if not (0 <= phi <= 2 * math.pi):
            bad(f"phi {phi!r} outside [0, 2*pi]")
        if rho > 0:
            if abs(rho * math.cos(phi) - p[0]) > tol or abs(rho * math.sin(phi) - p[1]) > tol:
                bad(f"phi {phi!r} does not recover (x, y) from rho={rho!r}")

    if name == "polar":
        if t[0] < 0 or abs(t[0] - rho) > tol:
            bad(f"r {t[0]!r} is not sqrt(x^2+y^2)={rho!r}")
        chk_phi(t[1])
    elif name in ("radial2", "radial3"):
        want = rho if name == "radial2" else r3
        if t[0] < 0 or abs(t[0] - want) > tol:
            bad(f"r {t[0]!r} is not the distance {want!r}")
    elif name == "azimuthal":
        chk_phi(t[0])
    elif name in ("spherical", "spherical_surface"):
        if name == "spherical":
            r, theta, phi = t
            if r < 0 or abs(r - r3) > tol:
                bad(f"r {r!r} is not sqrt(x^2+y^2+z^2)={r3!r}")
        else:
            theta, phi = t
        if not (0 <= theta <= math.pi):
            bad(f"theta {theta!r} outside [0, pi]")
        if r3 > 0 and (abs(r3 * math.cos(theta) - p[2]) > tol or abs(r3 * math.sin(theta) - rho) > tol):
            bad(f"theta {theta!r} is not the angle from the +z axis")
        chk_phi(phi)
    else:
        r, phi, z = t
        if r < 0 or abs(r - rho) > tol:
            bad(f"rho {r!r} is not sqrt(x^2+y^2)={rho!r}")
        if z != p[2]:
            bad(f"z {z!r} changed (was {p[2]!r})")
        chk_phi(phi)


def execute(plan, ctx):
    cfg = plan["config"]
    pts = plan["entries"]
    name = cfg["class"]
    K = klass_of(name)
    d = SRC_DIM[name]
    weights = cfg["weights"]
    paths = cfg["paths"]
    reps = {}
    bags = {}
    poisoned = set()
    ctx.state(name, cfg["phi_bins"], cfg["theta_bins"], len(cfg["r_edges"]), weights is not None)
    if cfg.get("scale"):
        ctx.fault("extreme_magnitude")
    used_paths = set()

    # classify points (fault accounting)
    for p in pts:
        nz = sum(1 for x in p if x != 0)
        if nz == 0:
            ctx.fault("origin_point")
        elif nz == 1:
            ctx.fault("axis_point")
        if any(x == 0 and math.copysign(1, x) < 0 for x in p):
            ctx.fault("signed_zero")
        if math.sqrt(sum(x * x for x in p)) > cfg["r_edges"][-1]:
            ctx.fault("outside_radius")

    # one caller-owned float64 array: its rows / slices are handed to several entry paths and replicas
    # (in "f32" runs the caller's array is single precision; list deliveries of the same points stay double)
    P_all = np.asarray(pts, dtype=np.float32 if cfg.get("vtype") == "f32" else np.float64).reshape(len(pts), d)
    P_ref = P_all.copy()

    def tr(points):
        return K.transform(np.array(points, dtype=float))

    def w_of(idx):
        return None if weights is None else [weights[i] for i in idx]

    def raised(r_id, path, what, exc, stop=False):
        poisoned.add(r_id)
        ctx.violation("C15/entry-path-works", f"C15/{what}-raised/{name}/{path}/{exc_tag(exc)}",
                      f"{what} through path {path!r} of {K.__name__} raised {exc!r}", stop=stop)

    last = None
    for step, op in enumerate(plan["ops"]):
        ctx.step = step
        ctx.advance()
        o = op["op"]
        if o == "barrier":
            groups = {}
            for r_id, h in sorted(reps.items()):
                if r_id not in poisoned:
                    groups.setdefault(tuple(sorted(bags[r_id])), []).append(r_id)
            for bag, members in groups.items():
                r0 = members[0]
                for r1 in members[1:]:
                    a, b = reps[r0], reps[r1]
                    pair = f"{paths[r0]}~{paths[r1]}"
                    for ax in range(a.ndim):
                        if not np.array_equal(np.asarray(a.binnings[ax].bins), np.asarray(b.binnings[ax].bins)):
                            ctx.violation("C15/same-bin-on-every-path", f"C15/paths-disagree/{name}/bins",
                                          f"replicas via {pair} have different bins on axis {ax}")
                    if not arrays_equal(a.frequencies, b.frequencies, exact=True):
                        ctx.violation("C15/same-bin-on-every-path", f"C15/paths-disagree/{name}/frequencies/{pair}",
                                      f"{K.__name__}: entry paths {pair} put the same {len(bag)} points into different bins: "
                                      f"{first_diff(a.frequencies, b.frequencies)}")
                    if not arrays_equal(a.errors2, b.errors2, exact=True):
                        ctx.violation("C15/same-bin-on-every-path", f"C15/paths-disagree/{name}/errors2/{pair}",
                                      f"{K.__name__}: entry paths {pair}: errors2 {first_diff(a.errors2, b.errors2)}")
                    if not arrays_equal(missed_tuple(a), missed_tuple(b), exact=True):
                        ctx.violation("C15/same-bin-on-every-path", f"C15/paths-disagree/{name}/missed/{pair}",
                                      f"{K.__name__}: entry paths {pair}: missed {missed_tuple(a)} vs {missed_tuple(b)}")
            ctx.ev("src", "barrier", None, len(groups))
            ctx.abstract("barrier", len(groups))
            continue
        r_id = op["r"] % len(paths)
        path = paths[r_id]
        if r_id in poisoned:
            continue
        if last is not None and last != r_id:
            ctx.fault("interleave")
        last = r_id
        if o == "construct":
            idx = [i for i in op["idx"] if i < len(pts)]
            if not idx:
                continue
            P = [pts[i] for i in idx]
            if path == "facade":
                ok, h = attempt(facade, cfg, P_all[idx[0]: idx[0] + len(idx)] if idx == list(range(idx[0], idx[0] + len(idx))) else P,
                                w_of(idx), False)
            else:
                ok_t, T = attempt(tr, P)
                if not ok_t:
                    raised(r_id, path, "transform", T)
                    continue
                ok, h = attempt(facade, cfg, np.asarray(T, dtype=float).reshape(len(P), -1), w_of(idx), True)
                ctx.fault("transformed_path")
            ctx.ev(r_id, f"construct:{path}", len(idx), "ok" if ok else exc_tag(h))
            ctx.abstract("construct", path, name, ok)
            if not ok:
                raised(r_id, path, "facade", h)
                continue
            if not isinstance(h, K):
                ctx.violation("C15/entry-path-works", f"C15/facade-class/{name}/{type(h).__name__}",
                              f"facade for {name} returned {type(h).__name__}")
            reps[r_id] = h
            bags[r_id] = list(idx)
            used_paths.add(path)
            continue
        if r_id not in reps:
            ok, h = attempt(make_empty, cfg)
            if not ok:
                raised(r_id, path, "constructor", h)
                continue
            reps[r_id] = h
            bags[r_id] = []
        h = reps[r_id]
        if o == "point":
            i = op["i"]
            if i >= len(pts):
                continue
            p = pts[i]
            p_arg = P_all[i] if (i + r_id) % 2 else p  # a row view of the caller's array, or a plain list
            w = None if weights is None else weights[i]
            ok_t, t = attempt(tr, p)
            if not ok_t:
                raised(r_id, path, "transform", t)
                continue
            check_transform(ctx, name, p, t)
            pre = snap(h)
            ok1, ix_c = attempt(h.find_bin, p_arg)
            tt = float(np.asarray(t).reshape(-1)[0]) if h.ndim == 1 else np.asarray(t, dtype=float)
            ok2, ix_t = attempt(h.find_bin, tt, transformed=True)
            if snap_diff(pre, snap(h)):
                ctx.violation("C15/find_bin-pure", f"C15/find_bin-mutates/{name}", "find_bin changed the histogram")
            if not ok1:
                raised(r_id, path, "find_bin", ix_c)
                continue
            if not ok2:
                raised(r_id, path, "find_bin-transformed", ix_t)
                continue
            if not same_ix(ix_c, ix_t):
                ctx.violation("C15/same-bin-on-every-path", f"C15/find_bin-cartesian!=transformed/{name}",
                              f"{K.__name__}.find_bin({p}) = {ix_c!r} but find_bin(transform(p)={np.asarray(t).tolist()}, "
                              f"transformed=True) = {ix_t!r}")
            if path == "fill_t":
                ok, ret = attempt(h.fill, tt, transformed=True) if w is None else attempt(h.fill, tt, w, transformed=True)
                ctx.fault("transformed_path")
            else:
                ok, ret = attempt(h.fill, p_arg) if w is None else attempt(h.fill, p_arg, w)
            ctx.ev(r_id, f"fill:{path}", i, repr(ret) if ok else exc_tag(ret))
            ctx.abstract("fill", path, name, ok)
            if not ok:
                raised(r_id, path, "fill", ret)
                continue
            if not same_ix(ret, ix_c):
                ctx.violation("C15/same-bin-on-every-path", f"C15/fill-return!=find_bin/{name}/{path}",
                              f"{K.__name__}.fill({p if path == 'fill' else np.asarray(t).tolist()}, transformed={path == 'fill_t'}) "
                              f"returned {ret!r} but find_bin gives {ix_c!r}")
            bags[r_id].append(i)
            used_paths.add(path)
        elif o == "adaptive_entry":
            from physt.binnings import FixedWidthBinning

            i = op["i"] % len(pts)
            sc = float(cfg.get("scale") or 1.0)
            p = [x * op["stretch"] for x in pts[i]]  # pushed outwards: beyond the two initial radial bins
            if not any(p):
                continue

            def fresh():
                bins = make_bins(cfg)
                bins[0] = FixedWidthBinning(bin_width=1.0 * sc, bin_count=2, bin_times_min=0, adaptive=True)
                return K(bins[0]) if len(bins) == 1 else K(binnings=bins)
            ok_t, t = attempt(tr, p)
            if not ok_t:
                raised(r_id, "adaptive", "transform", t)
                continue
            tt = float(np.asarray(t).reshape(-1)[0]) if len(make_bins(cfg)) == 1 else np.asarray(t, dtype=float)
            trio = {}
            for way in ("fill", "fill_n", "fill_transformed"):
                hh = fresh()
                if way == "fill":
                    ok_w, res_w = attempt(hh.fill, np.asarray(p, dtype=float))
                elif way == "fill_n":
                    ok_w, res_w = attempt(hh.fill_n, np.asarray([p], dtype=float))
                else:
                    ok_w, res_w = attempt(hh.fill, tt, transformed=True)
                if not ok_w:
                    raised(r_id, "adaptive", way, res_w)
                    trio = None
                    break
                trio[way] = hh
            ctx.fault("adaptive_axis_growth")
            ctx.ev(r_id, "adaptive_entry", i, "ok" if trio else "raised")
            ctx.abstract("adaptive_entry", name, trio is not None)
            if trio:
                ref = trio["fill_transformed"]
                for way in ("fill", "fill_n"):
                    hh = trio[way]
                    same_bins = all(np.array_equal(np.asarray(a_.bins), np.asarray(b_.bins))
                                    for a_, b_ in zip(hh.binnings, ref.binnings))
                    if not same_bins or not arrays_equal(hh.frequencies, ref.frequencies, exact=True) \
                            or float(hh.missed) != float(ref.missed):
                        ctx.violation("C15/same-bin-on-every-path", f"C15/adaptive-entry-differs/{name}/{way}",
                                      f"{K.__name__} with an adaptive radial axis: {way}({p}) gives bins "
                                      f"{[np.asarray(b_.bins).tolist() for b_ in hh.binnings][0]} contents "
                                      f"{np.asarray(hh.frequencies).tolist()} missed {float(hh.missed)}, entering the "
                                      f"transformed coordinates {np.asarray(t).tolist()} gives bins "
                                      f"{[np.asarray(b_.bins).tolist() for b_ in ref.binnings][0]} contents "
                                      f"{np.asarray(ref.frequencies).tolist()} missed {float(ref.missed)}"[:1500])
        elif o == "rebinned_entry":
            hh = make_empty(cfg)
            for i in op["use"]:
                q = np.asarray(pts[i % len(pts)], dtype=float)
                if op["use_how"] in ("find_bin", "both"):
                    attempt(hh.find_bin, q)
                if op["use_how"] in ("fill", "both"):
                    attempt(hh.fill, q)
            okm = True
            for m in op["merges"]:
                ok_m, res_m = attempt(hh.merge_bins, m["amount"], axis=m["axis"], inplace=True)
                if not ok_m:
                    ctx.probe("merge_refused:" + type(res_m).__name__)
                    okm = False
                    break
            ctx.fault("rebinned_between_entries")
            ctx.ev(r_id, "rebinned_entry", len(op["merges"]), "ok" if okm else "merge-refused")
            ctx.abstract("rebinned_entry", name, op["use_how"], okm)
            if not okm:
                continue
            twin = hh.copy()      # same bins and contents, never used for a look-up
            batch = hh.copy()
            qs = [np.asarray(pts[i % len(pts)], dtype=float) for i in op["after"]]
            stop_ = False
            for q in qs:
                ok1, ix1 = attempt(hh.find_bin, q)
                ok2, ix2 = attempt(twin.find_bin, q)
                if not (ok1 and ok2):
                    raised(r_id, "rebinned", "find_bin", ix1 if not ok1 else ix2)
                    stop_ = True
                    break
                if not same_ix(ix1, ix2):
                    ctx.violation("C15/same-bin-on-every-path", f"C15/rebinned-find_bin-differs/{name}",
                                  f"{K.__name__} used, then merge_bins{[(m['amount'], m['axis']) for m in op['merges']]} "
                                  f"in place: find_bin({q.tolist()}) = {ix1!r}, on an unused copy with the same bins "
                                  f"{ix2!r}")
                ok1, r1 = attempt(hh.fill, q)
                ok2, r2 = attempt(twin.fill, q)
                if not (ok1 and ok2):
                    raised(r_id, "rebinned", "fill", r1 if not ok1 else r2)
                    stop_ = True
                    break
            if stop_:
                continue
            ok3, r3_ = attempt(batch.fill_n, np.asarray(qs, dtype=float))
            if not ok3:
                raised(r_id, "rebinned", "fill_n", r3_)
                continue
            for other, label in ((twin, "fill on an unused copy"), (batch, "fill_n on an unused copy")):
                if not arrays_equal(hh.frequencies, other.frequencies, exact=True) or \
                        not arrays_equal(missed_tuple(hh), missed_tuple(other), exact=True):
                    ctx.violation("C15/same-bin-on-every-path", f"C15/rebinned-entry-differs/{name}/{label.split(' ')[0]}",
                                  f"{K.__name__} used, then merge_bins{[(m['amount'], m['axis']) for m in op['merges']]} "
                                  f"in place, then fill of {[q.tolist() for q in qs]}: contents "
                                  f"{first_diff(hh.frequencies, other.frequencies)} / missed {missed_tuple(hh)} vs "
                                  f"{missed_tuple(other)} ({label})"[:1500])
        elif o == "refused_fill":
            how = op["how"]
            p0 = [0.5] * d
            if how == "several_points":
                ok, res = attempt(h.fill, np.asarray([p0, p0, p0]))
            elif how == "wrong_length_transformed":
                ok, res = attempt(h.fill, [0.5] * (h.ndim + 1), transformed=True)
            else:
                ok, res = attempt(h.fill, p0, "heavy")
            ctx.ev(r_id, f"refused_fill:{how}", None, "accepted" if ok else exc_tag(res))
            ctx.abstract("refused_fill", how, name, ok)
            if ok:
                ctx.probe(f"invalid_fill_accepted:{how}")  # (refusal itself is C18's subject)
                poisoned.add(r_id)
            else:
                ctx.fault("refused_fill_midstream")
        elif o == "batch":
            idx = [i for i in op["idx"] if i < len(pts)]
            if not idx:
                continue
            if idx == list(range(idx[0], idx[0] + len(idx))):
                P = P_all[idx[0]: idx[0] + len(idx)]  # a slice (view) of the caller's array
            else:
                P = np.asarray([pts[i] for i in idx], dtype=float).reshape(len(idx), d)
            kw = {} if weights is None else {"weights": np.asarray(w_of(idx), dtype=float)}
            if path in ("fill_n_t", "facade_t"):
                ok_t, T = attempt(tr, P)
                if not ok_t:
                    raised(r_id, path, "transform", T)
                    continue
                T = np.asarray(T, dtype=float)
                ok, ret = attempt(h.fill_n, T.reshape(-1) if h.ndim == 1 else T.reshape(len(idx), -1), transformed=True, **kw)
                ctx.fault("transformed_path")
            else:
                ok, ret = attempt(h.fill_n, P, **kw)
            if len(idx) < len(pts):
                ctx.fault("batch_split")
            if idx != sorted(idx):
                ctx.fault("reorder")
            ctx.ev(r_id, f"fill_n:{path}", len(idx), "ok" if ok else exc_tag(ret))
            ctx.abstract("fill_n", path, name, min(len(idx), 3), ok)
            if not ok:
                raised(r_id, path, "fill_n", ret)
                continue
            bags[r_id] += idx
            used_paths.add(path)
        elif o == "projection":
            if h.ndim < 2:
                continue
            nd = h.ndim
            axes = [a for a in range(nd) if (op["arg"] >> a) & 1]
            if not axes or len(axes) == nd:
                axes = [op["arg"] % nd]
            if op.get("rename"):
                h = h.copy()
                h.axis_names = tuple(["first", "second", "third"][:nd])
                ctx.probe("projection_of_renamed_axes")
            args = [h.axis_names[a] for a in axes] if op.get("by_name") else axes
            ok, pr = attempt(h.projection, *args)
            ctx.fault("projection")
            ctx.ev(r_id, "projection", tuple(axes), "ok" if ok else exc_tag(pr))
            ctx.abstract("projection", name, tuple(axes), ok)
            if not ok:
                ctx.violation("C15/projection", f"C15/projection-raised/{name}/{tuple(axes)}/{exc_tag(pr)}",
                              f"{K.__name__}.projection{tuple(axes)} raised {pr!r}")
            want = projection_class(name, tuple(sorted(axes)))
            if want is not None and type(pr).__name__ != want:
                ctx.violation("C15/projection", f"C15/projection-class/{name}/{tuple(sorted(axes))}",
                              f"{K.__name__}.projection{tuple(axes)} is a {type(pr).__name__}, expected {want}")
            drop = tuple(a for a in range(nd) if a not in axes)
            mf = np.asarray(h.frequencies).sum(axis=drop)
            me = np.asarray(h.errors2).sum(axis=drop)
            if list(axes) != sorted(axes):
                pass  # axes are kept in their original order by the statement of C09; only totals judged then
            elif not (arrays_equal(pr.frequencies, mf, exact=True) and arrays_equal(pr.errors2, me, exact=True)):
                ctx.violation("C15/projection", f"C15/projection-contents/{name}/{tuple(axes)}",
                              f"{K.__name__}.projection{tuple(axes)} contents {np.asarray(pr.frequencies).tolist()} are not the "
                              f"marginal sums {mf.tolist()}"[:1200])
            # a projection is a special histogram in its own right: projecting it again obeys its own class map
            pname = {"PolarHistogram": "polar", "SphericalHistogram": "spherical",
                     "CylindricalHistogram": "cylindrical", "CylindricalSurfaceHistogram": "cylindrical_surface",
                     "SphericalSurfaceHistogram": "spherical_surface"}.get(type(pr).__name__)
            if pname and pr.ndim >= 2 and op.get("again") is not None:
                ax2 = op["again"] % pr.ndim
                ok2, pr2 = attempt(pr.projection, ax2)
                ctx.probe("projection_of_projection")
                if not ok2:
                    ctx.violation("C15/projection", f"C15/projection-raised/{pname}<-{name}/{(ax2,)}/{exc_tag(pr2)}",
                                  f"{type(pr).__name__}.projection({ax2}) (itself a projection of {K.__name__}) raised {pr2!r}")
                want2 = projection_class(pname, (ax2,))
                if want2 is not None and type(pr2).__name__ != want2:
                    ctx.violation("C15/projection", f"C15/projection-class/{pname}<-{name}/{(ax2,)}",
                                  f"{type(pr).__name__}.projection({ax2}) (itself a projection of {K.__name__}) is a "
                                  f"{type(pr2).__name__}, expected {want2}")
        elif o == "wrong_dim":
            bad_d = max(1, d + op["delta"])
            if bad_d == d or (name.startswith("radial") and bad_d in (2, 3)):
                continue
            ctx.fault("wrong_dimension_probe")
            p = [0.5] * bad_d
            pre = snap(h)
            how = op["how"]
            if how == "fill":
                ok, res = attempt(h.fill, p if bad_d > 1 else p[0])
            elif how == "fill_n":
                ok, res = attempt(h.fill_n, np.asarray([p, p]))
            elif how == "find_bin":
                ok, res = attempt(h.find_bin, p if bad_d > 1 else p[0])
            else:
                ok, res = attempt(K.transform, np.asarray([p, p]))
            ctx.ev(r_id, f"wrong_dim:{how}", bad_d, "accepted" if ok else exc_tag(res))
            ctx.abstract("wrong_dim", name, how, bad_d, ok)
            if ok:
                ctx.violation("C15/wrong-dimension-refused", f"C15/wrong-dimension-accepted/{name}/{how}",
                              f"{K.__name__}.{how} accepted {bad_d}-dimensional input (source dimension is {d}): {res!r}")
            if snap_diff(pre, snap(h), ignore=("dtype",)):
                ctx.violation("C15/wrong-dimension-refused", f"C15/wrong-dimension-changed/{name}/{how}",
                              f"refused {bad_d}-dimensional input changed the histogram: {snap_diff(pre, snap(h))}")
    if not np.array_equal(P_all, P_ref, equal_nan=True):
        ctx.violation("C15/callers-data-untouched", f"C15/input-array-modified/{name}",
                      f"{K.__name__}: entering points changed the caller's own coordinate array: "
                      f"{first_diff(P_ref, P_all)}")
    if len(used_paths) >= 2:
        ctx.nontrivial += 1


def projection_class(name, axes):
    table = {
        "polar": {(0,): "RadialHistogram", (1,): "AzimuthalHistogram"},
        "spherical": {(1, 2): "SphericalSurfaceHistogram", (0,): "RadialHistogram"},
        "cylindrical": {(0,): "RadialHistogram", (1,): "AzimuthalHistogram", (0, 1): "PolarHistogram",
                        (1, 2): "CylindricalSurfaceHistogram"},
        "cylindrical_surface": {(0,): "AzimuthalHistogram"},
    }
    return table.get(name, {}).get(axes)


def same_ix(a, b):
    if a is None or b is None:
        return a is None and b is None
    try:
        if isinstance(a, tuple) or isinstance(b, tuple):
            return tuple(int(x) for x in a) == tuple(int(x) for x in b)
        return int(a) == int(b)
    except TypeError:
        return False


def simplify(plan):
    """Minimisation: drop unreferenced entries, then try removing single entries from batches."""
    import copy

    from sim.shrink import compact_entries

    c = compact_entries(plan, ("weights",))
    if c is not None:
        yield c
    for k, op in enumerate(plan.get("ops", [])):
        idx = op.get("idx")
        if idx and len(idx) > 1:
            for j in range(len(idx)):
                c = copy.deepcopy(plan)
                del c["ops"][k]["idx"][j]
                yield c
