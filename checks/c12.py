"""C12 - derived histograms are independent of their sources.

Multi-holder isolation: a pool of live histograms (1-D / N-D / adaptive /
transformed / collections) shared by 2-4 holders.  *Derive* operations create
new objects from existing ones (copy, arithmetic, sum, normalize, merge_bins,
projection, indexing/select with a real selection, T, partial_normalize,
accumulate, JSON parsing, collection copy); *mutate* operations change one
object in place (fill, fill_n incl. adaptive growth, in-place arithmetic,
set_dtype, metadata edits, merge_bins(inplace), normalize(inplace),
set_adaptive).  The scheduler interleaves the holders.  Non-interference
oracle: all live objects are snapshotted before every operation; afterwards
every object other than the mutation target must have an identical public
snapshot and every object must be well-formed.  No value prediction is needed.
"""
from __future__ import annotations

import numpy as np

import sim  # noqa: F401
from sim import build
from sim.core import attempt, bulk_tier, deep_tier, exc_tag
from sim.oracle import snap, snap_diff, wellformed_problems

PROPERTY = "C12"
LEVEL = "exploration"
RUNS = {"quick": 50000, "thorough": 800000}
WALL = {"quick": 240, "thorough": 1500}
PARTITIONS = [{"name": "default", "env": {}}]
FAULT_KINDS = ["mutate_parent_after_derive", "mutate_child_after_derive", "adaptive_growth", "holder_switch",
               "dtype_change", "inplace_merge", "metadata_edit", "inplace_arithmetic"]
RULE = ("one run = a pool (<= 9) of live histograms created from seeded specs (1-3 D, adaptive or fixed, transformed "
        "classes, collections) and a seeded history (<= 16) of derive and mutate operations issued by 2-4 interleaved "
        "holders; distinct = distinct sequence of (op, class of target, relation of target to previously derived "
        "objects); non-trivial = at least one mutation hit an object that has a derived relative alive")
COMPONENTS = {
    "real": ["HistogramBase.copy / Histogram1D.copy, binning copy() implementations", "__add__/__sub__/__mul__/"
             "__truediv__/__radd__, normalize, merge_bins", "HistogramND.projection/_reduce_dimension/select/"
             "__getitem__, Histogram1D.__getitem__", "Histogram2D.T / partial_normalize, accumulate",
             "parse_json(to_json())", "HistogramCollection.copy", "fill / fill_n / in-place operators / set_dtype / "
             "metadata setters / set_adaptive", "numpy"],
    "simulated": ["the holders and the interleaving of their derive/mutate operations"],
}
ASSUMPTIONS = [
    "identity results the statement excludes (select(axis, slice(None)) / h[:] returning self) are not derivations",
    "members of one HistogramCollection share their binning by documented design: collections only hold "
    "non-adaptive members and a member is never counted as 'another object' of its own collection",
    "statistics are part of the snapshot for 1-D histograms (copy keeps them)",
]

DERIVE = ["copy", "copy", "copy_empty", "add", "sub", "mul", "div", "sum1", "radd0", "normalize", "merge", "projection",
          "slice", "slice", "select_int", "T", "partial_normalize", "accumulate", "json", "coll_copy", "mask", "index_array"]
MUTATE = ["fill", "fill", "fill_n", "fill_n", "fill_far", "iadd", "imul", "idiv", "set_dtype", "set_name", "set_title",
          "set_axis_names", "set_meta", "merge_inplace", "normalize_inplace", "set_adaptive", "isub"]
KINDS = ["h1", "h1", "h1_adaptive", "h1_adaptive", "h2", "h2_adaptive", "h3", "h3_adaptive", "polar", "cylindrical",
         "spherical", "collection", "h1_gapped", "h2_thin", "h2_fortran"]


def generate(rng, seed, part):
    n0 = rng.randint(1, 3)
    objs = []
    for _ in range(n0):
        kind = rng.choice(KINDS)
        if bulk_tier(rng):
            kind = rng.choice(["h1_wide", "h3_wide"])  # thousands of bins, thousands of entries
        spec = {"kind": kind, "dtype": rng.choice([None, None, "float64", "int32", "float32"]),
                "n": rng.choice([0, 2, 5, 9]) if not kind.endswith("wide") else rng.choice([9, 3000]), "seed": rng.randrange(1 << 30), "names": rng.random() < 0.5, "keep_missed": rng.random() < 0.8}
        objs.append(spec)
    ops = []
    holders = rng.randint(2, 4)
    for _ in range(rng.randint(2, 16) if not deep_tier(rng) else rng.randint(16, 45)):
        hold = rng.randrange(holders)
        if rng.random() < 0.5:
            ops.append({"h": hold, "op": "derive", "how": rng.choice(DERIVE), "src": rng.randrange(9),
                        "arg": rng.randrange(1 << 16)})
        else:
            ops.append({"h": hold, "op": "mutate", "how": rng.choice(MUTATE), "dst": rng.randrange(9),
                        "arg": rng.randrange(1 << 16)})
    return {"property": PROPERTY, "scenario": "holders", "config": {"objects": objs, "holders": holders}, "ops": ops}


# ----------------------------------------------------------------------------
# object construction
# ----------------------------------------------------------------------------
def mk_values(r, ndim, n, lo=-1.0, hi=5.0):
    return np.asarray([[round(r.uniform(lo, hi) * 4) / 4 for _ in range(ndim)] for _ in range(n)], dtype=float).reshape(n, ndim)


def make_object(spec):
    import random

    import physt
    from physt.binnings import FixedWidthBinning, StaticBinning
    from physt.histogram1d import Histogram1D
    from physt.histogram_collection import HistogramCollection
    from physt.histogram_nd import Histogram2D, HistogramND

    r = random.Random(spec["seed"])
    kind = spec["kind"]
    n = spec["n"]
    dt = {"dtype": np.dtype(spec["dtype"])} if spec["dtype"] else {}
    if not spec.get("keep_missed", True):
        dt["keep_missed"] = False
    names = spec.get("names")
    if kind in ("h1", "h1_gapped", "h1_adaptive", "h1_wide"):
        if kind == "h1_wide":
            b = FixedWidthBinning(bin_width=0.0009765625, bin_count=5000, bin_times_min=0)
        elif kind == "h1":
            b = StaticBinning(np.array([[0.0, 1.0], [1.0, 2.0], [2.0, 3.5], [3.5, 4.0]]))
        elif kind == "h1_gapped":
            b = StaticBinning(np.array([[0.0, 1.0], [1.5, 2.0], [2.0, 3.0]]))
            dt = dict(dt, dtype=np.dtype("float64"))
        else:
            b = FixedWidthBinning(bin_width=r.choice([1.0, 0.5]), bin_count=3, bin_times_min=0, adaptive=True)
        h = Histogram1D(b, **dt)
        if names:
            h.name = "obj"
            h.axis_name = "x"
        if n:
            h.fill_n(mk_values(r, 1, n)[:, 0])
        return h
    if kind in ("h2_thin", "h2_fortran"):
        # a single bin along one axis / contents handed over in Fortran order (kept as given): layouts in which a
        # transpose or a reshape is a view, not a copy
        if kind == "h2_thin":
            bs = [StaticBinning(np.array([[0.0, 4.0]])), StaticBinning(np.array([[0.0, 1.0], [1.0, 2.5], [2.5, 4.0]]))]
            if r.random() < 0.5:
                bs = bs[::-1]
            h = Histogram2D(bs, **dt)
        else:
            bs = [StaticBinning(np.array([[0.0, 1.0], [1.0, 2.5], [2.5, 4.0]])),
                  StaticBinning(np.array([[0.0, 1.0], [1.0, 2.0], [2.0, 3.0], [3.0, 4.0]]))]
            contents = np.asfortranarray(np.arange(12, dtype=np.int64).reshape(3, 4) % 5)
            h = Histogram2D(bs, frequencies=contents, errors2=np.asfortranarray(contents * 2), **dt)
        if names:
            h.name = "obj"
            h.axis_names = ["x", "y"]
        if n:
            h.fill_n(mk_values(r, 2, n))
        return h
    if kind in ("h2", "h2_adaptive", "h3", "h3_adaptive", "h3_wide"):
        d = 2 if kind.startswith("h2") else 3
        if kind == "h3_wide":
            bs = [FixedWidthBinning(bin_width=0.25, bin_count=18, bin_times_min=0) for _ in range(d)]
        elif kind.endswith("adaptive"):
            bs = [FixedWidthBinning(bin_width=1.0, bin_count=2, bin_times_min=0, adaptive=True) for _ in range(d)]
        else:
            bs = [StaticBinning(np.array([[0.0, 1.0], [1.0, 2.5], [2.5, 4.0]][: 3 if i < 2 else 2])) for i in range(d)]
        h = (Histogram2D if d == 2 else HistogramND)(bs, **dt)
        if names:
            h.name = "obj"
            h.axis_names = ["x", "y", "z"][:d]
        if n:
            h.fill_n(mk_values(r, d, n))
        return h
    if kind == "collection":
        ms = []
        for k in range(r.randint(1, 3)):
            m = Histogram1D(StaticBinning(np.array([[0.0, 1.0], [1.0, 2.0], [2.0, 4.0]])), name=f"m{k}")
            if n:
                m.fill_n(mk_values(r, 1, n)[:, 0])
            ms.append(m)
        return HistogramCollection(*ms, name="coll")
    pts = mk_values(r, 2 if kind == "polar" else 3, max(n, 1), -3.0, 3.0)
    if kind == "polar":
        return physt.polar(pts[:, 0], pts[:, 1], radial_bins=np.array([0.0, 1.0, 2.0, 5.0]), phi_bins=4)
    if kind == "cylindrical":
        return physt.cylindrical(pts, rho_bins=np.array([0.0, 1.0, 2.0, 5.0]), phi_bins=4,
                                 z_bins=np.array([-4.0, 0.0, 4.0]))
    return physt.spherical(pts, radial_bins=np.array([0.0, 1.0, 2.0, 6.0]), theta_bins=2, phi_bins=4)


# ----------------------------------------------------------------------------
# execution
# ----------------------------------------------------------------------------
class Obj:
    def __init__(self, h, origin, parents=()):
        self.h = h
        self.origin = origin
        self.parents = tuple(parents)
        self.part_of = None  # id of the collection this member belongs to


def is_coll(h):
    return type(h).__name__ == "HistogramCollection"


def is_special(h):
    return type(h).__name__ in ("PolarHistogram", "CylindricalHistogram", "SphericalHistogram", "RadialHistogram",
                                "AzimuthalHistogram", "SphericalSurfaceHistogram", "CylindricalSurfaceHistogram")


def execute(plan, ctx):
    from physt.io import parse_json

    pool = []
    for spec in plan["config"]["objects"]:
        ok, h = attempt(make_object, spec)
        if not ok:
            ctx.probe("setup_failed:" + type(h).__name__)
            return
        pool.append(Obj(h, "created:" + spec["kind"]))
    ctx.state(tuple(o.origin for o in pool))

    def snapshots():
        return [snap(o.h) for o in pool]

    def relation(i, j):
        """How objects i and j are related (for signatures)."""
        if i in pool[j].parents:
            return f"{pool[j].origin}:parent-mutated"
        if j in pool[i].parents:
            return f"{pool[i].origin}:child-mutated"
        if set(pool[i].parents) & set(pool[j].parents):
            return f"siblings:{pool[i].origin}+{pool[j].origin}"
        return "unrelated"

    def check_wellformed(what):
        for k, o in enumerate(pool):
            members = o.h.histograms if is_coll(o.h) else [o.h]
            for m in members:
                probs = wellformed_problems(m)
                if probs:
                    ctx.violation("C12/well-formed", f"C12/malformed/{type(m).__name__}/{o.origin}/after-{what}",
                                  f"after {what}: object {k} ({o.origin}, {type(m).__name__}) is malformed: {probs}")

    last_holder = None
    for step, op in enumerate(plan["ops"]):
        ctx.step = step
        ctx.advance()
        if last_holder is not None and op["h"] != last_holder:
            ctx.fault("holder_switch")
        last_holder = op["h"]
        before = snapshots()
        if op["op"] == "derive":
            if len(pool) >= 14:
                continue
            i = op["src"] % len(pool)
            src = pool[i].h
            how = op["how"]
            ok, res, parents = derive(how, src, op["arg"], pool, i)
            if res is NotImplemented:
                continue
            ctx.ev(op["h"], f"derive:{how}", i, "ok" if ok else exc_tag(res))
            ctx.abstract("derive", how, type(src).__name__, ok)
            after = snapshots()
            for k, (a, b) in enumerate(zip(before, after)):
                d = snap_diff(a, b)
                if d:
                    ctx.violation("C12/operands-unchanged", f"C12/operand-modified/{how}/{type(pool[k].h).__name__}",
                                  f"non-in-place operation {how} on object {i} changed object {k} "
                                  f"({pool[k].origin}): {d}")
            if not ok:
                if how == "copy_empty_use":
                    pass
                ctx.probe(f"derive_failed:{how}:{type(res).__name__}")
                continue
            for k, o in enumerate(pool):
                if res is o.h:
                    ctx.violation("C12/result-is-new-object", f"C12/result-is-operand/{how}",
                                  f"{how} returned its operand itself (object {k}): the result is not independent of its source")
            if how == "copy":
                d = snap_diff(snap(src), snap(res))
                okq, eq = attempt(lambda: bool(res == src))
                if d or not (okq and eq):
                    ctx.violation("C12/copy-equal", f"C12/copy-differs/{type(src).__name__}/{(d or ['=='])[0]}",
                                  f"copy() differs from the original in {d}; == gives {eq!r}")
            if how == "copy_empty":
                check_empty_copy(ctx, src, res)
            pool.append(Obj(res, how, parents))
            check_wellformed(f"derive-{how}")
        else:
            j = op["dst"] % len(pool)
            how = op["how"]
            ok, res = mutate(how, pool[j].h, op["arg"], ctx)
            if res is NotImplemented:
                continue
            ctx.ev(op["h"], f"mutate:{how}", j, "ok" if ok else exc_tag(res))
            has_rel = any((j in o.parents) or (k in pool[j].parents) for k, o in enumerate(pool) if k != j)
            if has_rel:
                ctx.nontrivial += 1
                ctx.fault("mutate_parent_after_derive" if any(j in o.parents for o in pool) else "mutate_child_after_derive")
            ctx.abstract("mutate", how, type(pool[j].h).__name__, pool[j].origin, has_rel, ok)
            after = snapshots()
            for k, (a, b) in enumerate(zip(before, after)):
                if k == j:
                    continue
                d = snap_diff(a, b)
                if d:
                    ctx.violation("C12/non-interference", f"C12/interference/{relation(j, k)}/{how}/{d[0]}",
                                  f"{how} on object {j} ({pool[j].origin}, {type(pool[j].h).__name__}) changed object {k} "
                                  f"({pool[k].origin}, {type(pool[k].h).__name__}) in {d} [relation: {relation(j, k)}]")
            check_wellformed(f"mutate-{how}")
        ctx.state(len(pool), tuple(type(o.h).__name__ for o in pool[-3:]))


def check_empty_copy(ctx, src, res):
    cls = type(src).__name__
    a, b = snap(src), snap(res)
    if a["axes"] != b["axes"] or a["cls"] != b["cls"]:
        ctx.violation("C12/empty-copy", f"C12/empty-copy-bins/{cls}", "copy(include_frequencies=False) has other bins/class")
    if np.any(np.asarray(res.frequencies) != 0) or np.any(np.asarray(res.errors2) != 0):
        ctx.violation("C12/empty-copy", f"C12/empty-copy-not-empty/{cls}", "copy(include_frequencies=False) is not empty")
    if is_special(res):
        return
    # it must be fully usable: accept a fill and a fill_n
    probe = res.copy(include_frequencies=False) if hasattr(res, "copy") else res
    v = [float(np.asarray(bn.bins)[0].mean()) if bn.bin_count else 0.5 for bn in probe.binnings]  # inside the first bin
    ok, r1 = attempt(probe.fill, v[0] if probe.ndim == 1 else v)
    if not ok:
        ctx.violation("C12/empty-copy", f"C12/empty-copy-unusable/{cls}/fill/{exc_tag(r1)}",
                      f"fill on copy(include_frequencies=False) raised {r1!r}")
    ok, r2 = attempt(probe.fill_n, [v[0]] if probe.ndim == 1 else [v])
    if not ok:
        ctx.violation("C12/empty-copy", f"C12/empty-copy-unusable/{cls}/fill_n/{exc_tag(r2)}",
                      f"fill_n on copy(include_frequencies=False) raised {r2!r}")
    if probe.total != 2:
        ctx.violation("C12/empty-copy", f"C12/empty-copy-unusable/{cls}/total",
                      f"after fill + fill_n on the empty copy total is {probe.total!r}")
    for name in ("statistics",):
        if probe.ndim == 1:
            ok, st = attempt(lambda: probe.statistics)
            if not ok:
                ctx.violation("C12/empty-copy", f"C12/empty-copy-unusable/{cls}/statistics/{exc_tag(st)}",
                              f"statistics of the empty copy raised {st!r}")


def derive(how, src, arg, pool, i):
    """Returns (ok, result | exception | NotImplemented, parent ids)."""
    from physt.io import parse_json

    coll = is_coll(src)
    nd = getattr(src, "ndim", 1)
    P = (i,)
    if coll:
        if how == "coll_copy":
            ok, res = attempt(src.copy)
            return ok, res, P
        if how == "json":
            ok, res = attempt(lambda: parse_json(src.to_json()))
            return ok, res, P
        if how in ("slice", "copy"):  # take a member out: shares by design -> not a derivation
            return True, NotImplemented, P
        if how in ("sum1", "add", "radd0"):
            # the sum of the members is arithmetic: a histogram of its own, also for a single member
            if not len(src.histograms):
                return True, NotImplemented, P
            ok, res = attempt(src.sum)
            return ok, res, P
        if how in ("normalize", "partial_normalize"):
            if any(not m.total > 0 for m in src.histograms):
                return True, NotImplemented, P
            with np.errstate(all="ignore"):
                ok, res = attempt(src.normalize_all if how == "normalize" else src.normalize_bins)
            return ok, res, P
        return True, NotImplemented, P
    if how == "copy":
        ok, res = attempt(src.copy)
    elif how == "copy_empty":
        ok, res = attempt(src.copy, include_frequencies=False)
    elif how == "add":
        ok, res = attempt(lambda: src + src)
    elif how == "sub":
        ok, res = attempt(lambda: src - src * 0.5)
    elif how == "mul":
        ok, res = attempt(lambda: src * 2)
    elif how == "div":
        ok, res = attempt(lambda: src / 2)
    elif how == "sum1":
        ok, res = attempt(lambda: sum([src]))
    elif how == "radd0":
        ok, res = attempt(lambda: 0 + src)
    elif how == "normalize":
        if not src.total > 0:
            return True, NotImplemented, P
        ok, res = attempt(src.normalize)
    elif how == "merge":
        if any(s < 2 for s in src.shape):
            return True, NotImplemented, P
        ok, res = attempt(src.merge_bins, 2, axis=axis_spelling(src, arg % nd, arg))
    elif how == "projection":
        if nd < 2:
            return True, NotImplemented, P
        axes = [arg % nd] if (nd == 2 or arg % 2) else [a for a in range(nd) if a != arg % nd]
        ok, res = attempt(src.projection, *[axis_spelling(src, a, arg) for a in axes])
    elif how == "slice":
        if nd == 1:
            if src.bin_count < 2:
                return True, NotImplemented, P
            sl = [slice(1, None), slice(None, -1), slice(1, 3)][arg % 3]
            ok, res = attempt(lambda: src[sl])
        else:
            if src.shape[0] < 2:
                return True, NotImplemented, P
            ok, res = attempt(lambda: src[1:] if arg % 2 else src[:, :-1] if src.shape[1] > 1 else src[1:])
    elif how == "mask":
        if nd != 1 or src.bin_count < 2:
            return True, NotImplemented, P
        m = np.zeros(src.bin_count, dtype=bool)
        m[:: 2] = True
        ok, res = attempt(lambda: src[m])
    elif how == "index_array":
        if nd != 1 or src.bin_count < 2:
            return True, NotImplemented, P
        ok, res = attempt(lambda: src[np.array([0, src.bin_count - 1])])
    elif how == "select_int":
        if nd < 2 or src.shape[arg % nd] < 1:
            return True, NotImplemented, P
        ok, res = attempt(src.select, axis_spelling(src, arg % nd, arg), 0)
    elif how == "T":
        if type(src).__name__ != "Histogram2D":
            return True, NotImplemented, P
        ok, res = attempt(lambda: src.T)
    elif how == "partial_normalize":
        if type(src).__name__ != "Histogram2D":
            return True, NotImplemented, P
        ok, res = attempt(src.partial_normalize, axis_spelling(src, arg % 2, arg))
    elif how == "accumulate":
        if nd < 2:
            return True, NotImplemented, P
        ok, res = attempt(src.accumulate, axis_spelling(src, arg % nd, arg))
    elif how == "json":
        ok, res = attempt(lambda: parse_json(src.to_json()))
    else:
        return True, NotImplemented, P
    return ok, res, P


def axis_spelling(h, ax, arg):
    """The same axis in one of the two spellings physt accepts: index or name (negative and numpy-integer axes are
    refused by design: "int or str expected")."""
    if (arg >> 6) % 2:
        names = list(h.axis_names)
        if len(set(names)) == len(names) and all(isinstance(n, str) and n for n in names):
            return names[ax]
    return ax


def mutate(how, h, arg, ctx):
    """Returns (ok, result) or (True, NotImplemented) when not applicable."""
    if is_coll(h):
        if how in ("fill", "fill_n", "set_name", "imul"):
            target = h.histograms[arg % len(h.histograms)]
            return mutate(how, target, arg, ctx)
        return True, NotImplemented
    nd = h.ndim
    special = is_special(h)
    lo = [float(np.asarray(b.bins)[0, 0]) if b.bin_count else 0.0 for b in h.binnings]
    if how in ("fill", "fill_far"):
        if special:
            return True, NotImplemented
        off = 0.25 + (arg % 3) if how == "fill" else 7.5 + (arg % 5)
        if how == "fill_far" and h.is_adaptive():
            ctx.fault("adaptive_growth")
        v = [x + off for x in lo]
        if (arg >> 7) % 3 == 0:
            return attempt(lambda: h << (v[0] if nd == 1 else v))  # operator spelling of fill
        return attempt(h.fill, v[0] if nd == 1 else v)
    if how == "fill_n":
        if special:
            pts = np.asarray([[0.5, 0.5, 0.5][: (2 if type(h).__name__ in ("PolarHistogram", "AzimuthalHistogram") else 3)]])
            return attempt(h.fill_n, pts)
        rows = [[x + 0.25 + k + (6 if arg % 4 == 0 else 0) for x in lo] for k in range(1 + arg % 3)]
        if arg % 4 == 0 and h.is_adaptive():
            ctx.fault("adaptive_growth")
        data = np.asarray(rows, dtype=float)
        return attempt(h.fill_n, data[:, 0] if nd == 1 else data)
    if how == "iadd":
        ctx.fault("inplace_arithmetic")
        other = h.copy()
        return attempt(lambda: h.__iadd__(other))
    if how == "isub":
        ctx.fault("inplace_arithmetic")
        other = h * 0.5
        return attempt(lambda: h.__isub__(other))
    if how == "imul":
        ctx.fault("inplace_arithmetic")
        return attempt(lambda: h.__imul__(3))
    if how == "idiv":
        ctx.fault("inplace_arithmetic")
        return attempt(lambda: h.__itruediv__(4))
    if how == "set_dtype":
        ctx.fault("dtype_change")
        target = [np.float64, np.float32, np.float64][arg % 3]
        if (arg >> 7) % 2:
            def via_setter():
                h.dtype = target
            return attempt(via_setter)
        return attempt(h.set_dtype, target)
    if how == "set_name":
        ctx.fault("metadata_edit")

        def f():
            h.name = f"renamed{arg % 7}"
        return attempt(f)
    if how == "set_title":
        ctx.fault("metadata_edit")

        def g():
            h.title = f"title{arg % 7}"
        return attempt(g)
    if how == "set_axis_names":
        ctx.fault("metadata_edit")

        def k():
            h.axis_names = [f"ax{arg % 5}_{i}" for i in range(nd)]
        return attempt(k)
    if how == "set_meta":
        ctx.fault("metadata_edit")

        def m():
            h.meta_data[f"key{arg % 3}"] = [arg % 11, "v"]
        return attempt(m)
    if how == "merge_inplace":
        if any(s < 2 for s in h.shape):
            return True, NotImplemented
        ctx.fault("inplace_merge")
        return attempt(h.merge_bins, 2, axis=axis_spelling(h, arg % nd, arg), inplace=True)
    if how == "normalize_inplace":
        if not h.total > 0:
            return True, NotImplemented
        ctx.fault("inplace_arithmetic")
        return attempt(h.normalize, inplace=True)
    if how == "set_adaptive":
        if not all(b.adaptive_allowed for b in h.binnings) or any(b.includes_right_edge for b in h.binnings):
            return True, NotImplemented
        if (arg >> 7) % 2:
            def via_property():
                h.adaptive = bool(arg % 2)
            return attempt(via_property)
        return attempt(h.set_adaptive, bool(arg % 2))
    return True, NotImplemented
