"""C13 - content dtype is consistent and never loses information.

Operation histories over every supported dtype (int16/32/64, float16/32/64/128)
on several live nodes: construct (weighted / unweighted, explicit dtype), fill,
fill_n (int or float weights), +, -, *, /, normalize, merge_bins, explicit
dtype changes (method and property setter) - with a small dtype model stepped
alongside.  After *every* operation: dtype == frequencies.dtype ==
errors2.dtype; kind rules (counting stays integer, float weights / factors /
division promote to float without truncation); histogram (+,-) histogram uses
numpy promotion; explicit conversions that would lose information must raise
and change nothing, accepted ones must equal astype().  The reduce-tree
scenario of C05 is re-run with the dtype rules only.
"""
from __future__ import annotations

import math

import numpy as np

import sim  # noqa: F401
from checks import c05
from sim import build
from sim.core import attempt, bulk_tier, exc_tag
from sim.oracle import chaos, missed_tuple, snap, snap_diff

PROPERTY = "C13"
LEVEL = "exploration"
RUNS = {"quick": 100000, "thorough": 1500000}
WALL = {"quick": 240, "thorough": 1500}
PARTITIONS = [{"name": "default", "env": {}}]
FAULT_KINDS = ["projection_beyond_source_dtype", "masked_array_assigned", "bulk_batch", "lossy_conversion_probe", "narrowing_probe", "mixed_dtype_arith", "float_weight_into_int",
               "int_float_subtraction", "refused_int_with_float_weights", "dtype_setter"]
RULE = ("one run = 1-3 live histograms (1-2 D) created with dtypes drawn from all seven supported types, then a "
        "seeded history (<= 12) of fill / fill_n (int, float weights) / + / - / * / / / normalize / merge_bins / "
        "set_dtype / dtype-setter operations incl. conversions that must be refused; or a C05 reduce tree judged by "
        "the dtype rules; distinct = distinct sequence of (op, dtype before, argument type, outcome); non-trivial = "
        "at least one dtype change, mixed-dtype arithmetic or conversion probe occurred")
COMPONENTS = {
    "real": ["HistogramBase.__init__ dtype inference, _eval_dtype, set_dtype, dtype setter, _coerce_dtype",
             "dtype handling of calculate_1d_frequencies / calculate_nd_frequencies", "coercions in fill / fill_n / "
             "__iadd__ / __isub__ / __imul__ / __itruediv__ / partial_normalize / merge_bins", "numpy promotion"],
    "simulated": ["the operation history (which node, which operation, which argument types, where conversion "
                  "probes are injected)"],
}
ASSUMPTIONS = [
    "only the stated direction is judged for explicit conversions: a lossy conversion must be refused; the check "
    "does not demand that every admissible conversion be accepted",
    "'no information lost' for float targets means: the entered weight is present in total up to the precision "
    "of the histogram's float type (8 eps of that type, relative)",
]

ALL_DTYPES = ["int16", "int32", "int64", "float16", "float32", "float64", "float128"]


def generate(rng, seed, part):
    if rng.random() < 0.2:
        plan = c05.generate(rng, seed, part)
        tries = 0
        while plan["scenario"] != "reduce_tree" and tries < 5:
            plan = c05.generate(rng, seed, part)
            tries += 1
        plan["property"] = PROPERTY
        plan["scenario"] = "reduce_tree_dtype" if plan["scenario"] == "reduce_tree" else plan["scenario"]
        return plan
    ndim = rng.choice([1, 1, 2])
    axes = [build.gen_axis(rng, max_bins=5 if ndim == 1 else 3, allow_gaps=False,
                           families=["static", "numpy", "fixed"]) for _ in range(ndim)]
    pools = [build.axis_pool(build.spec_bins(a)) for a in axes]
    entries = []
    for _ in range(24):
        vals = [build.draw_value(rng, p, inside_only=rng.random() < 0.8) for p in pools]
        entries.append(vals[0] if ndim == 1 else vals)
    k = rng.randint(1, 3)
    ops = []
    for nid in range(k):
        how = rng.choice(["empty", "construct", "construct_w"])
        dt = rng.choice(ALL_DTYPES + [None, None])
        wk = rng.choice(["int", "float"])
        ops.append({"op": "new", "out": nid, "how": how, "dtype": dt, "wkind": wk,
                    "idx": [rng.randrange(24) for _ in range(rng.randint(0, 6))]})
    nodes = k
    for _ in range(rng.randint(1, 12)):
        r = rng.random()
        a = rng.randrange(nodes)
        if r < 0.14:
            ops.append({"op": "fill", "a": a, "i": rng.randrange(24),
                        "w": rng.choice([None, None, 1, 2, 0.5, 0.25, 1.5, 0.1]),
                        "wt": rng.choice([None, None, None, "np.float32", "np.float16", "np.float64", "np.longdouble",
                                          "np.int32", "np.int64"])})
        elif r < 0.28:
            ops.append({"op": "fill_n", "a": a, "idx": [rng.randrange(24) for _ in range(rng.randint(0, 5))],
                        "wkind": rng.choice(["none", "none", "int", "float", "float32", "int32"])})
        elif r < 0.40:
            ops.append({"op": rng.choice(["add", "add", "sub", "iadd", "isub"]), "a": a, "b": rng.randrange(nodes),
                        "out": nodes})
            nodes += 1
        elif r < 0.52:
            ops.append({"op": rng.choice(["mul", "imul", "div", "idiv"]), "a": a, "out": nodes,
                        "t": rng.choice(["int", "float", "np.int32", "np.float32", "np.float64", "np.longdouble",
                                         "np.float16"]),
                        "c": rng.choice([2, 3, 0.5, 1.5, 4])})
            nodes += 1
        elif r < 0.58:
            ops.append({"op": "normalize", "a": a, "inplace": rng.random() < 0.5, "out": nodes})
            nodes += 1
        elif r < 0.63:
            ops.append({"op": "merge", "a": a, "amount": rng.choice([2, 3]), "inplace": rng.random() < 0.5,
                        "out": nodes})
            nodes += 1
        elif r < 0.70:
            ops.append({"op": "assign", "a": a, "what": rng.choice(["frequencies", "errors2"]),
                        "values": rng.choice(["quarter", "double_int", "float32", "same", "masked_fraction",
                                              "masked_big"])})
            if ops[-1]["values"].startswith("masked"):
                # ... and then the request the hidden value must make fail
                ops.append({"op": "set_dtype", "a": a, "to": rng.choice(["int64", "int32", "int16"]),
                            "via": rng.choice(["method", "setter"]), "prep": None})
        elif r < 0.73 and ndim == 2:
            ops.append({"op": "accumulate", "a": a, "axis": rng.choice([0, 1]), "out": nodes})
            nodes += 1
        elif r < 0.77 and ndim == 2:
            ops.append({"op": "partial_normalize", "a": a, "axis": rng.choice([0, 1]), "inplace": rng.random() < 0.5,
                        "out": nodes})
            nodes += 1
        else:
            ops.append({"op": "set_dtype", "a": a, "to": rng.choice(ALL_DTYPES), "via": rng.choice(["method", "setter"]),
                        "prep": rng.choice([None, None, "fraction", "big", "huge"])})
    if rng.random() < 0.15:
        # a projection adds up many bins: its sums may need a wider type than each bin of the source does
        ops.append({"op": "projection_sums", "a": 0, "klass": rng.choice(["h2", "polar", "cylindrical", "spherical"]),
                    # (integers: numpy's sums widen to int64; a float16 sum beyond 65504 is simply out of range)
                    "dtype": rng.choice(["int16", "int32"]), "axis": rng.randrange(3)})
    if bulk_tier(rng):
        # one batch of thousands of rows somewhere in the history (size-dependent paths of fill_n)
        ops.insert(rng.randint(k, len(ops)),
                   {"op": "fill_n", "a": rng.randrange(k), "idx": [rng.randrange(24) for _ in range(5)],
                    "wkind": rng.choice(["none", "none", "int", "float", "float32", "int32"]),
                    "rep": rng.choice([500, 1700, 1800])})
    return {"property": PROPERTY, "scenario": "dtype_history", "config": {"ndim": ndim, "axes": axes},
            "entries": entries, "ops": ops}


def consistent(ctx, h, what):
    from sim.oracle import chaos

    d = np.dtype(h.dtype)
    if chaos() or d != np.asarray(h.frequencies).dtype or d != np.asarray(h.errors2).dtype:
        ctx.violation("C13/dtype-consistent", f"C13/dtype!=arrays/{what}",
                      f"after {what}: dtype={d}, frequencies.dtype={np.asarray(h.frequencies).dtype}, "
                      f"errors2.dtype={np.asarray(h.errors2).dtype}")


def eps_of(*dtypes):
    """Largest machine epsilon among the given dtypes (floor: float64's, since totals are read as float64)."""
    e = 2.3e-16
    for dtype in dtypes:
        d = np.dtype(dtype)
        if d.kind == "f":
            e = max(e, float(np.finfo(d).eps))
    return e


def mk_scalar(t, v):
    if t == "int":
        return int(v) if float(v).is_integer() else float(v)
    if t == "float":
        return float(v)
    if "int" in t:
        return getattr(np, t.split(".")[1])(int(v) if float(v).is_integer() else 2)
    return getattr(np, t.split(".")[1])(v)


def execute(plan, ctx):
    if plan["scenario"] == "reduce_tree_dtype":
        p = dict(plan)
        p["scenario"] = "reduce_tree"
        return c05.execute(p, ctx, rules=("C13",))
    if plan["scenario"] == "dask_pool":
        return
    from physt import h as f_h, h1 as f_h1

    cfg = plan["config"]
    ndim = cfg["ndim"]
    entries = plan["entries"]
    nodes = {}

    def data_of(idx):
        return np.asarray([entries[i] for i in idx if i < len(entries)], dtype=float).reshape(-1, ndim)

    def new_empty(dt):
        return build.make_empty({"axes": cfg["axes"], "dtype": dt, "keep_missed": True})

    changed = False
    for step, op in enumerate(plan["ops"]):
        ctx.step = step
        ctx.advance()
        o = op["op"]
        if o == "new":
            dt = op["dtype"]
            if op["how"] == "empty":
                ok, h = attempt(new_empty, dt)
                want_kind = np.dtype(dt).kind if dt else "i"
            else:
                data = data_of(op["idx"])
                bins = [build.make_binning(a) for a in cfg["axes"]]
                kw = {}
                weighted = op["how"] == "construct_w"
                if weighted:
                    w = np.arange(1, data.shape[0] + 1)
                    kw["weights"] = w.astype(np.int64) if op["wkind"] == "int" else w * 0.5
                if ndim == 1:
                    if dt:
                        kw["dtype"] = np.dtype(dt)
                    ok, h = attempt(f_h1, data[:, 0], bins[0], **kw)
                else:
                    if dt:
                        kw["dtype"] = np.dtype(dt)
                    ok, h = attempt(f_h, data, bins, **kw)
                int_req = bool(dt) and np.dtype(dt).kind == "i"
                if weighted and op["wkind"] == "float" and int_req and ndim == 1:
                    ctx.fault("refused_int_with_float_weights")
                    if ok:
                        ctx.violation("C13/int-with-float-weights-refused", "C13/int-histogram-with-float-weights-accepted",
                                      f"h1(data, dtype={dt}, weights=float array) was accepted and gave dtype {h.dtype}, "
                                      f"total {h.total!r}")
                    ctx.ev("n", "new-refused", op["out"], "ok" if ok else exc_tag(h))
                    continue
                if ndim == 1 and dt:
                    want_kind = np.dtype(dt).kind
                elif weighted and op["wkind"] == "float":
                    want_kind = "f"
                else:
                    want_kind = "i"
            ctx.ev("n", f"new:{op['how']}:{dt}", op["out"], "ok" if ok else exc_tag(h))
            ctx.abstract("new", op["how"], dt, ok)
            if not ok:
                ctx.probe("setup_failed:" + type(h).__name__)
                continue
            nodes[op["out"]] = h
            consistent(ctx, h, "construct")
            if np.dtype(h.dtype).kind != want_kind and not (ndim > 1 and dt):
                ctx.violation("C13/kind-rules", f"C13/construct-kind/{op['how']}/{want_kind}",
                              f"{op['how']} construction (dtype={dt}, weights={op['wkind'] if op['how'] == 'construct_w' else None}) "
                              f"gave dtype {h.dtype}, expected kind {want_kind!r}")
            continue
        a = nodes.get(op.get("a"))
        if a is None:
            continue
        pre = snap(a)
        pre_dtype = np.dtype(a.dtype)
        pre_total = float(a.total)
        pre_miss = sum(x for x in missed_tuple(a) if not math.isnan(x))
        # missed counters that are already NaN/inf (unknown after gaps, overflowed by a narrowing the statement
        # does not cover) make the conservation of an entered weight unobservable: no truncation verdict then
        miss_ok = all(math.isfinite(x) for x in missed_tuple(a)) or a.keep_missed is False
        if o == "fill":
            v = entries[op["i"] % len(entries)]
            w = op["w"]
            if w is not None and op.get("wt"):
                npt = getattr(np, op["wt"].split(".")[1])
                if "int" in op["wt"]:
                    w = npt(int(w)) if float(w).is_integer() else w
                else:
                    w = npt(w)  # a numpy floating scalar (only np.float64 is a subclass of float)
            ok, res = attempt(a.fill, v) if w is None else attempt(a.fill, v, w)
            ctx.ev("n", f"fill:{type(w).__name__}", op["a"], "ok" if ok else exc_tag(res))
            ctx.abstract("fill", str(pre_dtype), type(w).__name__, ok)
            if not ok:
                ctx.probe("fill_failed:" + type(res).__name__)
                continue
            consistent(ctx, a, "fill")
            fw = isinstance(w, (float, np.floating))
            if fw and pre_dtype.kind == "i":
                ctx.fault("float_weight_into_int")
            kind = np.dtype(a.dtype).kind
            if (not fw and kind != pre_dtype.kind) or (fw and kind != "f"):
                ctx.violation("C13/kind-rules", f"C13/fill-kind/{pre_dtype.kind}->{kind}/w={type(w).__name__}",
                              f"fill(weight={w!r}) on dtype {pre_dtype} gave dtype {a.dtype}")
            ww = 1 if w is None else float(w)
            got = float(a.total) + sum(x for x in missed_tuple(a) if not math.isnan(x))
            want = pre_total + pre_miss + ww
            if miss_ok and post_miss_ok(a) and math.isfinite(want) and not abs(got - want) <= 8 * eps_of(a.dtype, pre_dtype) * (abs(want) + 1):
                ctx.violation("C13/no-truncation", f"C13/fill-truncated/{pre_dtype}",
                              f"fill(weight={w!r}) on dtype {pre_dtype}: total+missed went from {pre_total + pre_miss!r} "
                              f"to {got!r} (dtype now {a.dtype}); the weight was not fully recorded")
        elif o == "fill_n":
            data = data_of(op["idx"])
            if op.get("rep") and data.shape[0]:
                data = np.tile(data, (int(op["rep"]), 1))
                ctx.fault("bulk_batch")
            n = data.shape[0]
            wk = op["wkind"]
            kw = {}
            wsum = float(n)
            if wk != "none":
                base = np.arange(1, n + 1) if not op.get("rep") else (np.arange(n) % 2) + 1
                w = {"int": base.astype(np.int64), "int32": base.astype(np.int32),
                     "float": base * 0.5, "float32": (base * 0.25).astype(np.float32)}[wk]
                kw["weights"] = w
                wsum = float(w.sum())
            ok, res = attempt(a.fill_n, data[:, 0] if ndim == 1 else data, **kw)
            ctx.ev("n", f"fill_n:{wk}", op["a"], "ok" if ok else exc_tag(res))
            ctx.abstract("fill_n", str(pre_dtype), wk, ok)
            if not ok:
                ctx.probe("fill_n_failed:" + type(res).__name__)
                continue
            consistent(ctx, a, "fill_n")
            fw = wk.startswith("float")
            if fw and pre_dtype.kind == "i":
                ctx.fault("float_weight_into_int")
            kind = np.dtype(a.dtype).kind
            if (not fw and kind != pre_dtype.kind) or (fw and kind != "f"):
                ctx.violation("C13/kind-rules", f"C13/fill_n-kind/{pre_dtype.kind}->{kind}/w={wk}",
                              f"fill_n(weights={wk}) on dtype {pre_dtype} gave dtype {a.dtype}")
            got = float(a.total) + sum(x for x in missed_tuple(a) if not math.isnan(x))
            want = pre_total + pre_miss + wsum
            if miss_ok and post_miss_ok(a) and math.isfinite(want) and not abs(got - want) <= 8 * eps_of(a.dtype, pre_dtype) * (abs(want) + 1) * max(n, 1):
                ctx.violation("C13/no-truncation", f"C13/fill_n-truncated/{pre_dtype}/w={wk}",
                              f"fill_n(weights={wk}, sum {wsum!r}) on dtype {pre_dtype}: total+missed went from "
                              f"{pre_total + pre_miss!r} to {got!r} (dtype now {a.dtype})")
        elif o in ("add", "sub", "iadd", "isub"):
            b = nodes.get(op["b"])
            if b is None:
                continue
            if a.shape != b.shape or any(not np.array_equal(np.asarray(x.bins), np.asarray(y.bins))
                                         for x, y in zip(a.binnings, b.binnings)):
                continue  # (a merge changed one of them) - only equal bins are in scope here
            want = np.promote_types(a.dtype, b.dtype)
            lim = float(np.iinfo(want).max) if want.kind == "i" else float(np.finfo(want).max)
            if (np.asarray(a.errors2, dtype=np.float64).max(initial=0) + np.asarray(b.errors2, dtype=np.float64).max(initial=0)
                    >= lim / 2):
                continue  # the sum would overflow the promoted type: outside the statement (values within range)
            if a.dtype != b.dtype:
                ctx.fault("mixed_dtype_arith")
            if o in ("sub", "isub") and pre_dtype.kind != np.dtype(b.dtype).kind:
                ctx.fault("int_float_subtraction")
            if o in ("sub", "isub"):
                # subtract something that is surely contained: half of a itself, in b's dtype where possible
                bb = b if np.all(np.asarray(a.frequencies) >= np.asarray(b.frequencies)) else None
                if bb is None:
                    continue
            if o == "add":
                ok, res = attempt(lambda: a + b)
            elif o == "sub":
                ok, res = attempt(lambda: a - b)
            elif o == "iadd":
                ok, res = attempt(lambda: a.__iadd__(b))
            else:
                ok, res = attempt(lambda: a.__isub__(b))
            ctx.ev("n", f"{o}:{pre_dtype}:{b.dtype}", op["a"], "ok" if ok else exc_tag(res))
            ctx.abstract(o, str(pre_dtype), str(b.dtype), ok)
            if not ok:
                if op["a"] == op["b"] and o in ("isub",):
                    continue
                ctx.violation("C13/promotion", f"C13/{o}-raised/{pre_dtype.kind}{np.dtype(b.dtype).kind}/{exc_tag(res)}",
                              f"{o} of histograms with dtypes {pre_dtype} and {b.dtype} over equal bins raised {res!r}; "
                              f"left operand changed: {snap_diff(pre, snap(a))}")
            consistent(ctx, res, o)
            if chaos() or np.dtype(res.dtype) != want:
                ctx.violation("C13/promotion", f"C13/{o}-dtype/{pre_dtype}+{b.dtype}",
                              f"{o} of dtypes {pre_dtype} and {b.dtype} gave {res.dtype}; numpy promotion gives {want}")
            if o in ("add", "sub"):
                nodes[op["out"]] = res
                consistent(ctx, a, o + "-operand")
        elif o in ("mul", "imul", "div", "idiv"):
            c = mk_scalar(op["t"], op["c"])
            fn = {"mul": lambda: a * c, "imul": lambda: a.__imul__(c), "div": lambda: a / c,
                  "idiv": lambda: a.__itruediv__(c)}[o]
            ok, res = attempt(fn)
            ctx.ev("n", f"{o}:{op['t']}", op["a"], "ok" if ok else exc_tag(res))
            ctx.abstract(o, str(pre_dtype), op["t"], ok)
            if not ok:
                ctx.probe(f"{o}_failed:" + type(res).__name__)
                continue
            consistent(ctx, res, o)
            kind = np.dtype(res.dtype).kind
            floaty = o in ("div", "idiv") or isinstance(c, (float, np.floating))
            if floaty and kind != "f":
                ctx.violation("C13/kind-rules", f"C13/{o}-kind/{pre_dtype.kind}->{kind}/{op['t']}",
                              f"{o} by {c!r} on dtype {pre_dtype} gave {res.dtype}: a float factor / division must promote to float")
            if not floaty and kind != pre_dtype.kind:
                ctx.violation("C13/kind-rules", f"C13/{o}-kind/{pre_dtype.kind}->{kind}/{op['t']}",
                              f"{o} by integer {c!r} on dtype {pre_dtype} gave {res.dtype}")
            factor = float(c) if o in ("mul", "imul") else 1.0 / float(c)
            want = pre_total * factor
            if math.isfinite(want) and not abs(float(res.total) - want) <= 16 * eps_of(res.dtype, pre_dtype) * (abs(want) + 1):
                ctx.violation("C13/no-truncation", f"C13/{o}-truncated/{pre_dtype}/{op['t']}",
                              f"{o} by {c!r} on dtype {pre_dtype}: total {pre_total!r} -> {res.total!r} (dtype {res.dtype}), expected {want!r}")
            if o in ("mul", "div"):
                nodes[op["out"]] = res
        elif o == "normalize":
            if not pre_total > 0:
                continue
            ok, res = attempt(a.normalize, inplace=op["inplace"])
            ctx.ev("n", "normalize", op["a"], "ok" if ok else exc_tag(res))
            ctx.abstract("normalize", str(pre_dtype), ok)
            if not ok:
                ctx.probe("normalize_failed:" + type(res).__name__)
                continue
            consistent(ctx, res, "normalize")
            if np.dtype(res.dtype).kind != "f":
                ctx.violation("C13/kind-rules", f"C13/normalize-kind/{pre_dtype.kind}",
                              f"normalize on dtype {pre_dtype} gave {res.dtype}")
            if not op["inplace"]:
                nodes[op["out"]] = res
        elif o == "assign":
            f = np.asarray(getattr(a, op["what"]))
            if op["values"].startswith("masked"):
                # a masked array (e.g. out of a numpy.ma computation): its data are the contents, mask or not
                data = f.astype(np.float64).copy()
                mask = np.zeros(data.shape, dtype=bool)
                if data.size:
                    data.reshape(-1)[0] = data.reshape(-1)[0] + (0.5 if op["values"] == "masked_fraction" else 90000.0)
                    mask.reshape(-1)[0] = True
                vals = np.ma.masked_array(data, mask=mask)
                ctx.fault("masked_array_assigned")
            else:
                vals = {"quarter": f * 0.25, "double_int": (f * 2), "float32": f.astype(np.float32) * 0.5,
                        "same": f.copy()}[op["values"]]

            def do_assign():
                setattr(a, op["what"], vals)
            ok, res = attempt(do_assign)
            ctx.ev("n", f"assign:{op['what']}:{op['values']}", op["a"], "ok" if ok else exc_tag(res))
            ctx.abstract("assign", op["what"], op["values"], str(pre_dtype), ok)
            if not ok:
                ctx.probe("assign_failed:" + type(res).__name__)
                continue
            consistent(ctx, a, f"assign-{op['what']}")
            got = np.asarray(getattr(a, op["what"]), dtype=np.float64)
            if not np.allclose(got, np.asarray(np.ma.getdata(vals), dtype=np.float64), rtol=1e-6, atol=0):
                ctx.violation("C13/no-truncation", f"C13/assignment-truncated/{op['what']}/{pre_dtype}",
                              f"h.{op['what']} = {np.asarray(vals).tolist()} on dtype {pre_dtype} stored {got.tolist()}")
        elif o == "projection_sums":
            from physt import special_histograms as sp
            from physt.binnings import StaticBinning
            from physt.histogram_nd import Histogram2D

            big = {"int16": 17500, "int32": 600_000_000, "float16": 30000}[op["dtype"]]
            klass = op["klass"]
            r_b = StaticBinning(np.array([0.0, 1.0, 2.0]))
            phi_b = StaticBinning(np.linspace(0, 2 * np.pi, 5))
            if klass in ("h2", "polar"):
                K = Histogram2D if klass == "h2" else sp.PolarHistogram
                f = np.array([[big] * 4, [100] * 4], dtype=np.int64)
                src = K([r_b, phi_b], frequencies=f)
            else:
                K = sp.CylindricalHistogram if klass == "cylindrical" else sp.SphericalHistogram
                third = StaticBinning(np.array([-1.0, 0.0, 1.0])) if klass == "cylindrical" else \
                    StaticBinning(np.linspace(0, np.pi, 3))
                f = np.zeros((2, 4, 2), dtype=np.int64) if klass == "cylindrical" else np.zeros((2, 2, 4), dtype=np.int64)
                f[0] = big
                f[1] = 100
                src = K([r_b, phi_b, third] if klass == "cylindrical" else [r_b, third, phi_b], frequencies=f)
            ok, res = attempt(src.set_dtype, np.dtype(op["dtype"]))
            if not ok:
                ctx.probe("projection_sums_setup_refused")
                continue
            ax = op["axis"] % src.ndim
            ok, proj = attempt(src.projection, ax)
            ctx.ev("n", f"projection_sums:{klass}:{op['dtype']}", ax, "ok" if ok else exc_tag(proj))
            ctx.abstract("projection_sums", klass, op["dtype"], ax, ok)
            ctx.fault("projection_beyond_source_dtype")
            if not ok:
                ctx.violation("C13/no-truncation", f"C13/projection-raised/{klass}/{op['dtype']}/{exc_tag(proj)}",
                              f"projection({ax}) of a {K.__name__} with dtype {op['dtype']} (every bin within range) "
                              f"raised {proj!r}")
            consistent(ctx, proj, f"projection-{klass}")
            want = np.asarray(f, dtype=np.float64).sum(axis=tuple(a_ for a_ in range(src.ndim) if a_ != ax))
            got = np.asarray(proj.frequencies, dtype=np.float64)
            tol = 0.0 if op["dtype"] != "float16" else float(want.max()) * 2e-3
            if got.shape != want.shape or np.any(np.abs(got - want) > tol):
                ctx.violation("C13/no-truncation", f"C13/projection-truncated/{klass}/{op['dtype']}",
                              f"projection({ax}) of a {K.__name__} with dtype {op['dtype']}: contents {got.tolist()} "
                              f"(dtype {proj.dtype}), the marginal sums are {want.tolist()}")
        elif o == "accumulate":
            if ndim < 2:
                continue
            ok, res = attempt(a.accumulate, op["axis"])
            ctx.ev("n", "accumulate", op["a"], "ok" if ok else exc_tag(res))
            ctx.abstract("accumulate", str(pre_dtype), ok)
            if not ok:
                ctx.probe("accumulate_failed:" + type(res).__name__)
                continue
            consistent(ctx, res, "accumulate")
            consistent(ctx, a, "accumulate-operand")
            nodes[op["out"]] = res
        elif o == "partial_normalize":
            if type(a).__name__ != "Histogram2D":
                continue
            ok, res = attempt(a.partial_normalize, op["axis"], inplace=op["inplace"])
            ctx.ev("n", "partial_normalize", op["a"], "ok" if ok else exc_tag(res))
            ctx.abstract("partial_normalize", str(pre_dtype), ok)
            if not ok:
                ctx.probe("partial_normalize_failed:" + type(res).__name__)
                continue
            consistent(ctx, res, "partial_normalize")
            if np.dtype(res.dtype).kind != "f":
                ctx.violation("C13/kind-rules", f"C13/partial_normalize-kind/{pre_dtype.kind}",
                              f"partial_normalize on dtype {pre_dtype} gave {res.dtype}")
            if not op["inplace"]:
                nodes[op["out"]] = res
                consistent(ctx, a, "partial_normalize-operand")
        elif o == "merge":
            ok, res = attempt(a.merge_bins, op["amount"], inplace=op["inplace"])
            ctx.ev("n", "merge", op["a"], "ok" if ok else exc_tag(res))
            ctx.abstract("merge", str(pre_dtype), ok)
            if not ok:
                ctx.probe("merge_failed:" + type(res).__name__)
                continue
            consistent(ctx, res, "merge_bins")
            if np.dtype(res.dtype) != pre_dtype:
                ctx.violation("C13/kind-rules", f"C13/merge-dtype/{pre_dtype}", f"merge_bins changed dtype {pre_dtype} -> {res.dtype}")
            if not op["inplace"]:
                nodes[op["out"]] = res
        elif o == "set_dtype":
            to = np.dtype(op["to"])
            prep = op.get("prep")
            if prep:
                # make the contents non-integral / large so that the conversion would lose information
                okp, _ = attempt(prepare, a, prep, entries, ndim)
                if not okp:
                    continue
                consistent(ctx, a, "prepare")
                pre = snap(a)
                pre_dtype = np.dtype(a.dtype)
            f = np.asarray(a.frequencies)
            e = np.asarray(a.errors2)
            lossy = conversion_lossy(f, e, to)
            if lossy:
                ctx.fault("lossy_conversion_probe")
            if to.itemsize < pre_dtype.itemsize or (to.kind == "i" and pre_dtype.kind == "f"):
                ctx.fault("narrowing_probe")
            if op["via"] == "setter":
                ctx.fault("dtype_setter")

                def fn():
                    a.dtype = to
            else:
                def fn():
                    a.set_dtype(to)
            with np.errstate(all="ignore"):
                ok, res = attempt(fn)
            ctx.ev("n", f"set_dtype:{pre_dtype}->{to}:{op['via']}", op["a"], "ok" if ok else exc_tag(res))
            ctx.abstract("set_dtype", str(pre_dtype), str(to), bool(lossy), ok)
            if ok:
                if lossy:
                    ctx.violation("C13/lossy-conversion-refused", f"C13/lossy-conversion-accepted/{pre_dtype}->{to}/{lossy}",
                                  f"dtype change {pre_dtype} -> {to} was accepted although {lossy}: contents "
                                  f"{f.tolist()} errors2 {e.tolist()} became {np.asarray(a.frequencies).tolist()} / "
                                  f"{np.asarray(a.errors2).tolist()}"[:1500])
                consistent(ctx, a, "set_dtype")
                if np.dtype(a.dtype) != to:
                    ctx.violation("C13/dtype-consistent", f"C13/set_dtype-ignored/{pre_dtype}->{to}",
                                  f"set_dtype({to}) returned normally but dtype is {a.dtype}")
                with np.errstate(all="ignore"):
                    if not (np.array_equal(np.asarray(a.frequencies), f.astype(to), equal_nan=True)
                            and np.array_equal(np.asarray(a.errors2), e.astype(to), equal_nan=True)):
                        ctx.violation("C13/conversion-is-astype", f"C13/conversion-changed-values/{pre_dtype}->{to}",
                                      f"after accepted conversion {pre_dtype} -> {to} contents are "
                                      f"{np.asarray(a.frequencies).tolist()}, astype gives {f.astype(to).tolist()}"[:1500])
                if to != pre_dtype:
                    changed = True
            else:
                d = snap_diff(pre, snap(a))
                if d:
                    ctx.violation("C13/refused-conversion-changes-nothing", f"C13/refused-conversion-changed/{pre_dtype}->{to}",
                                  f"refused dtype change {pre_dtype} -> {to} ({res!r}) changed {d}")
    if changed:
        ctx.nontrivial += 1


def post_miss_ok(h):
    return all(math.isfinite(x) for x in missed_tuple(h)) or h.keep_missed is False


def prepare(h, prep, entries, ndim):
    v = entries[0]
    if prep == "fraction":
        h.fill(v, 0.5)
        idx = h.find_bin(v)
    elif prep == "big":
        h.fill(v, 40000)  # beyond int16; within float16 (max 65504) but its squared error is not
    else:
        h.fill(v, 100000)  # within int32, squared error (1e10) beyond int32; beyond float16
    return h


def conversion_lossy(f, e, to):
    """Reason string if converting these contents/errors to dtype `to` must be refused, else ''."""
    f64 = np.asarray(f, dtype=np.float64) if f.dtype != np.float128 else f
    e64 = np.asarray(e, dtype=np.float64) if e.dtype != np.float128 else e
    if to.kind == "i":
        for name, arr in (("content", f64), ("squared error", e64)):
            if arr.size and np.any(arr != np.floor(arr)):
                return f"a {name} is not integral"
        info = np.iinfo(to)
        for name, arr in (("content", f64), ("squared error", e64)):
            if arr.size and (np.any(arr > info.max) or np.any(arr < info.min)):
                return f"a {name} is outside the range of {to}"
        return ""
    info = np.finfo(to)
    for name, arr in (("content", f64), ("squared error", e64)):
        if arr.size and (np.any(arr > float(info.max)) or np.any(arr < float(info.min))):
            return f"a {name} is outside the range of {to}"
    return ""
