"""Run N seeds of one check in-process, twice each, and print a violation summary.
usage: smoke.py C03 500 [part] [first]"""
import sys, time
sys.path.insert(0, "/verif")
import sim
from collections import Counter
from sim.core import make_rng, run_plan, run_seed, dump_plan
import importlib
prop = sys.argv[1]; n = int(sys.argv[2]); part = int(sys.argv[3]) if len(sys.argv) > 3 else 0
first = int(sys.argv[4]) if len(sys.argv) > 4 else 0
m = importlib.import_module("checks." + prop.lower())
t = time.time(); F = Counter(); P = Counter(); S = Counter(); ex = {}
for i in range(first, first + n):
    s = run_seed(0, i); plan = m.generate(make_rng(s), s, part)
    ctx = run_plan(m, plan); F.update(ctx.faults); P.update(ctx.probes)
    ctx2 = run_plan(m, m.generate(make_rng(s), s, part))
    assert ctx2.digest() == ctx.digest(), ("nondeterministic", s)
    for v in ctx.violations:
        S[v.signature] += 1
        ex.setdefault(v.signature, (s, v.message))
print(n, "runs", round(time.time() - t, 2), "s")
print("faults", dict(F)); print("probes", dict(P))
for sig, c in S.most_common(int(sys.argv[5]) if len(sys.argv) > 5 else 25):
    print(f"{c:5d} {sig}\n       seed={ex[sig][0]} {ex[sig][1][:300]}")
