#!/venv/bin/python
"""Seeded changes (written by independent sub-agents) against the checks.

  seeded.py verify <id>            confirm: patch applies, pinned suite passes with it, demo fails with / passes without
  seeded.py run <id> [props...]    run the quick checks (default: the property the change targets) against the change
  seeded.py matrix [--all-props]   run every seeded change, rewrite seeded/KILL_MATRIX.md

Every change is applied to a scratch copy of /repo/src under /var/tmp (removed afterwards); /repo is never touched.
"""
import json
import os
import shutil
import subprocess
import sys
import tempfile

VERIF = os.path.dirname(os.path.dirname(os.path.abspath(__file__)))
SEEDED = os.path.join(VERIF, "seeded")
PY = "/venv/bin/python"


def scratch_with_patch(sid):
    d = tempfile.mkdtemp(prefix=f"seeded-{sid}-", dir="/var/tmp")
    shutil.copytree("/repo/src", os.path.join(d, "src"))
    p = subprocess.run(["patch", "-p1", "-s", "-i", os.path.join(SEEDED, sid, "patch.diff")], cwd=d,
                       capture_output=True, text=True)
    if p.returncode != 0:
        shutil.rmtree(d, ignore_errors=True)
        raise RuntimeError(f"patch for {sid} does not apply: {p.stdout} {p.stderr}")
    return d


def env_with(src):
    e = dict(os.environ)
    e["PYTHONPATH"] = src
    e["PHYST_SRC"] = src
    e["HYPOTHESIS_STORAGE_DIRECTORY"] = "/var/tmp/hyp-suite"  # keep hypothesis' example database out of /repo
    return e


def verify(sid):
    meta = json.load(open(os.path.join(SEEDED, sid, "meta.json")))
    d = scratch_with_patch(sid)
    try:
        src = os.path.join(d, "src")
        chk = subprocess.run([PY, "-c", "import physt,sys;print(physt.__file__)"], env=env_with(src), capture_output=True, text=True)
        assert src in chk.stdout, chk.stdout + chk.stderr
        shutil.rmtree("/var/tmp/hyp-suite/examples", ignore_errors=True)  # never replay pinned examples of flaky tests
        t = subprocess.run([PY, "-m", "pytest", "-q", "-p", "no:cacheprovider", "-n", "8", "--timeout=900",
                            "--continue-on-collection-errors"], cwd="/repo", env=env_with(src), capture_output=True, text=True)
        tail = [line for line in t.stdout.splitlines() if "passed" in line or "failed" in line][-1:]
        failed = [line for line in t.stdout.splitlines() if line.startswith("FAILED")]
        flaky_only = all("test_polars" in f or "TestFillN::test_increases_total_by_zero_or_weight" in f for f in failed)  # flaky on the pinned snapshot too (16 of 61 hypothesis seeds)
        demo = os.path.join(SEEDED, sid, meta.get("demo", "demo.py"))
        with_change = subprocess.run([PY, demo], env=env_with(src), capture_output=True, text=True, timeout=600)
        without = subprocess.run([PY, demo], env=env_with("/repo/src"), capture_output=True, text=True, timeout=600)
        ok = (t.returncode == 0 or flaky_only) and with_change.returncode != 0 and without.returncode == 0
        print(f"{sid}: suite: {tail} failed={failed[:3]} | demo with change rc={with_change.returncode}, "
              f"without rc={without.returncode} -> {'CONFIRMED' if ok else 'NOT CONFIRMED'}")
        if with_change.returncode != 0:
            print("   demo says:", (with_change.stdout + with_change.stderr).strip().splitlines()[-1][:300])
        return ok
    finally:
        shutil.rmtree(d, ignore_errors=True)


def run_checks(sid, props, runs=None):
    d = scratch_with_patch(sid)
    out = {}
    try:
        src = os.path.join(d, "src")
        for p in props:
            cmd = [PY, os.path.join(VERIF, "run.py"), "--property", p, "--tier", "quick"]
            if runs:
                cmd += ["--runs", str(runs)]
            e = dict(os.environ)
            e["PHYST_SRC"] = src
            if runs:
                e["HISTSIM_TRIAGE"] = "brief"
            r = subprocess.run(cmd, env=e, capture_output=True, text=True, timeout=3600)
            sigs = [line.split("signature:", 1)[1].strip() for line in r.stdout.splitlines() if "signature:" in line]
            out[p] = {"rc": r.returncode, "violations": sigs}
            for f in os.listdir(os.path.join(VERIF, "replays")):
                if f.startswith(p + "-") and f.endswith(".json"):
                    os.remove(os.path.join(VERIF, "replays", f))
            # evidence files were rewritten by a run against a modified tree: restore the committed ones
            subprocess.run(["git", "-C", VERIF, "checkout", "--", f"evidence/{p}.json"], capture_output=True)
    finally:
        shutil.rmtree(d, ignore_errors=True)
    return out


def matrix(all_props=False, runs=None):
    claims = [c["id"] for c in json.load(open(os.path.join(VERIF, "claims.json")))]
    rows = []
    for sid in sorted(os.listdir(SEEDED)):
        mp = os.path.join(SEEDED, sid, "meta.json")
        if not os.path.exists(mp):
            continue
        meta = json.load(open(mp))
        # "also_run": properties whose statement the change really violates when that is not (only) the one its author
        # aimed at (a check must stay silent about what its own statement does not say)
        props = claims if all_props else [meta["property"]] + [p for p in meta.get("also_run", []) if p in claims]
        res = run_checks(sid, props, runs)
        caught = [p for p, r in res.items() if r["rc"] == 1]
        broken = [p for p, r in res.items() if r["rc"] not in (0, 1)]
        sig = "; ".join((res[meta["property"]]["violations"] or
                         [v for p in caught for v in res[p]["violations"]])[:2]) if meta["property"] in res else ""
        rows.append((sid, meta["property"], meta.get("needs", ""), ", ".join(caught) or "-", sig, ", ".join(broken)))
        meta["caught_by"] = caught
        meta["example_signatures"] = res.get(meta["property"], {}).get("violations", [])[:3]
        json.dump(meta, open(mp, "w"), indent=1)
        print(rows[-1])
    with open(os.path.join(SEEDED, "KILL_MATRIX.md"), "w") as f:
        f.write("# Seeded changes vs. checks\n\nEach change was written by a fresh sub-agent that saw only the property "
                "text and a scratch worktree; it passes the pinned suite and fails its own demonstration.\n\n"
                "| id | targets | needs to manifest | caught by (quick tier) | example signature |\n|---|---|---|---|---|\n")
        for sid, prop, needs, caught, sig, broken in rows:
            f.write(f"| {sid} | {prop} | {needs} | {caught}{' (harness error: ' + broken + ')' if broken else ''} | `{sig}` |\n")
    return rows


if __name__ == "__main__":
    cmd = sys.argv[1]
    if cmd == "verify":
        sys.exit(0 if verify(sys.argv[2]) else 1)
    elif cmd == "run":
        sid = sys.argv[2]
        props = sys.argv[3:] or [json.load(open(os.path.join(SEEDED, sid, "meta.json")))["property"]]
        print(json.dumps(run_checks(sid, props), indent=1))
    elif cmd == "matrix":
        runs = [int(a.split("=")[1]) for a in sys.argv if a.startswith("--runs=")]
        matrix("--all-props" in sys.argv, runs[0] if runs else None)
