#!/venv/bin/python
"""Chaos self-test: make the oracle's comparisons fail artificially (every n-th comparison of a run) and run every
check briefly.  Expected: exit 1 with VIOLATION lines whose replay files reproduce - and *never* a harness error
(exit 2): every violation branch of the harness must survive being taken.  usage: chaos.py [runs] [n ...]"""
import json, os, subprocess, sys
VERIF = os.path.dirname(os.path.dirname(os.path.abspath(__file__)))
runs = sys.argv[1] if len(sys.argv) > 1 else "1500"
ns = sys.argv[2:] or ["7", "23", "61"]
claims = [c["id"] for c in json.load(open(os.path.join(VERIF, "claims.json")))]
bad = 0
for prop in claims:
    for n in ns:
        e = dict(os.environ); e["HISTSIM_CHAOS"] = n
        p = subprocess.run(["/venv/bin/python", os.path.join(VERIF, "run.py"), "--property", prop, "--tier", "quick", "--runs", runs],
                           env=e, capture_output=True, text=True, timeout=3600)
        sigs = [l for l in p.stdout.splitlines() if "signature:" in l]
        herr = [l for l in p.stderr.splitlines() if l.startswith("HARNESS-ERROR")]
        if p.returncode == 0 and not herr and not sigs:
            status = "ok (no run has as many as n comparisons: nothing was forced)"
        else:
            status = "ok" if p.returncode == 1 and not herr else f"PROBLEM rc={p.returncode}"
        if not status.startswith("ok"):
            bad += 1
        print(f"{prop} chaos={n}: rc={p.returncode} distinct violation signatures={len(sigs)} harness errors={len(herr)} -> {status}")
        for l in herr[:3]:
            print("    ", l[:300])
            idx = p.stderr.find(l)
            print("    ", p.stderr[idx: idx + 1500].replace("\n", "\n     ")[-900:])
        for f in os.listdir(os.path.join(VERIF, "replays")):
            if f.startswith(prop + "-") and f.endswith(".json"):
                os.remove(os.path.join(VERIF, "replays", f))
        subprocess.run(["git", "-C", VERIF, "checkout", "--", f"evidence/{prop}.json"], capture_output=True)
sys.exit(1 if bad else 0)
