"""Specs (JSON-able descriptions) of binnings / histograms / data, builders that
turn a spec into fresh physt objects, and seeded generators of specs.

Every replica of a run is built from the spec with its *own* binning objects,
so no unspecified object sharing is exercised by accident.
"""
from __future__ import annotations

import math

import numpy as np

from physt.binnings import (
    ExponentialBinning,
    FixedWidthBinning,
    NumpyBinning,
    StaticBinning,
)
from physt.histogram1d import Histogram1D
from physt.histogram_nd import Histogram2D, HistogramND

INT_DTYPES = ["int16", "int32", "int64"]
FLOAT_DTYPES = ["float16", "float32", "float64", "float128"]


# ----------------------------------------------------------------------------
# binnings
# ----------------------------------------------------------------------------
def make_binning(s):
    k = s["kind"]
    if k == "static":
        return StaticBinning(np.array(s["bins"], dtype=float), includes_right_edge=s.get("ire", True))
    if k == "numpy":
        return NumpyBinning(np.array(s["edges"], dtype=float), includes_right_edge=s.get("ire", True))
    if k == "fixed":
        return FixedWidthBinning(
            bin_width=s["width"],
            bin_count=s.get("count", 0),
            bin_times_min=s.get("times_min"),
            bin_shift=s.get("shift"),
            includes_right_edge=s.get("ire", False),
            adaptive=s.get("adaptive", False),
            align=s.get("align", True),
        )
    if k == "exp":
        return ExponentialBinning(
            log_min=s["log_min"], log_width=s["log_width"], bin_count=s["count"],
            includes_right_edge=s.get("ire", True),
        )
    raise ValueError(f"unknown binning spec {s!r}")


def spec_bins(s) -> np.ndarray:
    """(n, 2) edge pairs a spec denotes (computed by physt's own binning object)."""
    return np.asarray(make_binning(s).bins, dtype=float)


def hist_class(ndim):
    return Histogram1D if ndim == 1 else (Histogram2D if ndim == 2 else HistogramND)


def make_empty(hs):
    """Fresh empty histogram from a histogram spec (class constructor path)."""
    axes = [make_binning(a) for a in hs["axes"]]
    kw = {"keep_missed": hs.get("keep_missed", True)}
    if hs.get("dtype"):
        kw["dtype"] = np.dtype(hs["dtype"])
    if len(axes) == 1:
        return Histogram1D(axes[0], **kw)
    if len(axes) == 2:
        return Histogram2D(axes, **kw)
    return HistogramND(axes, **kw)


# ----------------------------------------------------------------------------
# generators of axis specs
# ----------------------------------------------------------------------------
STEPS = [0.25, 0.5, 1.0, 1.5, 2.0, 0.1, 0.3, 2.5, 7.0]
BASES = [0.0, -3.0, 0.5, -10.25, 100.0, -0.75, 1e3]
WIDTHS = [1.0, 2.0, 0.5, 0.25, 0.1, 0.3, 2.5, 7.0, 1e-3]


def gen_edges(rng, n):
    base = rng.choice(BASES)
    edges = [base]
    regular = rng.random() < 0.4
    step = rng.choice(STEPS)
    for _ in range(n):
        if not regular:
            step = rng.choice(STEPS)
        edges.append(edges[-1] + step)
    return edges


SCALES = [1e-9, 1e-4, 1e6, 1e12, 2.0 ** 40, 3e-7]


def scale_axis(spec, s):
    """The same axis with all edges multiplied by s (magnitudes far from 1: 1e-9 ... 1e12)."""
    spec = dict(spec)
    if spec["kind"] == "static":
        spec["bins"] = [[l * s, r * s] for l, r in spec["bins"]]
        spec["bins"] = [b for b in spec["bins"] if b[0] < b[1]]
    elif spec["kind"] == "numpy":
        spec["edges"] = [e * s for e in spec["edges"]]
    elif spec["kind"] == "fixed":
        spec["width"] = spec["width"] * s
        if spec.get("shift") is not None:
            spec["shift"] = spec["shift"] * s
    elif spec["kind"] == "exp":
        spec["log_min"] = spec["log_min"] + math.log10(s)
    return spec


def gen_axis(rng, *, max_bins=7, allow_gaps=True, families=None, min_bins=1, scaled=0.0):
    """A non-adaptive axis spec from one of the binning families (`scaled`: probability of a far-from-1 magnitude)."""
    spec = _gen_axis(rng, max_bins=max_bins, allow_gaps=allow_gaps, families=families, min_bins=min_bins)
    if scaled and rng.random() < scaled:
        spec = scale_axis(spec, rng.choice(SCALES))
    return spec


def _gen_axis(rng, *, max_bins=7, allow_gaps=True, families=None, min_bins=1):
    fam = rng.choice(families or ["static", "static", "pairs", "numpy", "fixed", "fixed", "exp"])
    n = rng.randint(min_bins, max_bins)
    if fam == "exp":
        n = min(n, 80)
    if fam == "pairs" and not allow_gaps:
        fam = "static"
    if fam == "static":
        e = gen_edges(rng, n)
        return {"kind": "static", "bins": [[e[i], e[i + 1]] for i in range(n)],
                "ire": rng.random() < 0.7}
    if fam == "pairs":
        e = gen_edges(rng, 2 * n)
        bins = []
        i = 0
        while i + 1 < len(e) and len(bins) < n:
            bins.append([e[i], e[i + 1]])
            i += 1 if rng.random() < 0.5 else 2  # adjacent or leave a gap
        return {"kind": "static", "bins": bins, "ire": rng.random() < 0.7}
    if fam == "near":
        # bins given as pairs whose inner edges nearly (but not exactly) touch: 0.1*3 vs 0.3, one ulp, 1e-9 relative
        e = gen_edges(rng, n)
        bins = []
        for i in range(n):
            left = e[i]
            if i and rng.random() < 0.6:
                left = rng.choice([near(e[i], +1), e[i] * (1 + 1e-9) if e[i] > 0 else near(e[i], +1),
                                   e[i] + abs(e[i]) * 1e-7 + 1e-12])
                if not left < e[i + 1]:
                    left = near(e[i], +1)
            bins.append([left, e[i + 1]])
        return {"kind": "static", "bins": bins, "ire": rng.random() < 0.7}
    if fam == "numpy":
        return {"kind": "numpy", "edges": gen_edges(rng, n), "ire": rng.random() < 0.7}
    if fam == "fixed":
        w = rng.choice(WIDTHS)
        spec = {"kind": "fixed", "width": w, "count": n,
                "times_min": rng.choice([0, -2, 3, -7, 40, -1000]),
                "ire": rng.random() < 0.4}
        if rng.random() < 0.3:
            spec["shift"] = rng.choice([0.5, 0.25, w / 2, 0.1])
        return spec
    if fam == "exp":
        return {"kind": "exp", "log_min": rng.choice([0.0, -1.0, 0.5]),
                "log_width": rng.choice([0.5, 1.0, 0.25]), "count": n, "ire": rng.random() < 0.7}
    raise AssertionError(fam)


def near(x, direction):
    return float(np.nextafter(x, math.inf if direction > 0 else -math.inf))


def axis_pool(bins: np.ndarray):
    """Edge-centred value pool for one axis: dict of kind -> list of floats."""
    lefts, rights = bins[:, 0], bins[:, 1]
    edges = sorted(set(float(x) for x in np.concatenate([lefts, rights])))
    pool = {"edge": list(edges), "near": [], "inner": [], "outside": [], "gap": []}
    for e in edges:
        pool["near"] += [near(e, -1), near(e, +1)]
    for l, r in bins:
        pool["inner"] += [float((l + r) / 2), float(l + (r - l) / 4)]
    span = max(edges[-1] - edges[0], 1.0)
    lo, hi = edges[0], edges[-1]
    pool["outside"] = [lo - span, lo - 1.0, lo - 0.125, hi + 0.125, hi + 1.0, hi + span]
    for i in range(len(bins) - 1):
        if bins[i, 1] != bins[i + 1, 0]:
            pool["gap"].append(float((bins[i, 1] + bins[i + 1, 0]) / 2))
    if lo <= 0.0 <= hi:
        pool["inner"] += [0.0, -0.0]
    return pool


def draw_value(rng, pool, *, inside_only=False):
    r = rng.random()
    if inside_only:
        kind = "inner" if r < 0.6 else "edge_in"
        if kind == "inner":
            return rng.choice(pool["inner"])
        # edges that are surely inside: left edges (every left edge belongs to its bin)
        return rng.choice(pool["edge"][:-1]) if len(pool["edge"]) > 1 else rng.choice(pool["inner"])
    if r < 0.35:
        return rng.choice(pool["inner"])
    if r < 0.6:
        return rng.choice(pool["edge"])
    if r < 0.75:
        return rng.choice(pool["near"])
    if r < 0.9 or not pool["gap"]:
        return rng.choice(pool["outside"])
    return rng.choice(pool["gap"])


WEIGHT_KINDS = ["none", "int", "dyadic", "float"]
BIG_WEIGHTS = [2 ** 24 + 1, 2 ** 26 + 3, 2 ** 31 + 7]  # beyond float32 / int32; the last one only in float64 bins


def draw_weight(rng, kind):
    if kind == "none":
        return None
    if kind == "big":
        # as floats: the squares (2**62) are in range, sums of them in int64 would not be
        return float(rng.choice(BIG_WEIGHTS))
    if kind == "big_i":
        return rng.choice(BIG_WEIGHTS[:2])
    if kind == "int_mid":
        # fits int16, the square does not (nor does a sum of a few of them): arrays of these travel as int16 / int32
        return rng.choice([150, 181, 200, 250])
    if kind == "int":
        return rng.randint(1, 4)
    if kind == "dyadic":
        return rng.randint(0, 32) / 8.0
    return rng.choice([0.1, 1 / 3, 0.7, 2.5, 1.0, 1e-3, 0.3])


def pick_dtype(rng, weight_kind):
    """A histogram dtype that can hold the weights exactly (see DESIGN 5.2)."""
    if weight_kind == "none":
        return rng.choice(INT_DTYPES + ["float16", "float32", "float64", None, None])
    if weight_kind == "int":
        return rng.choice(["int32", "int64", "float32", "float64", None])
    if weight_kind == "dyadic":
        return rng.choice(["float32", "float64", "float64", None])
    if weight_kind == "big":
        return "float64"
    if weight_kind == "big_i":
        return rng.choice(["int64", "int64", None])
    if weight_kind == "int_mid":
        return rng.choice(["int64", "int64", "float64", "int32"])
    return rng.choice(["float64", "float64", None])


def as_container(values, kind):
    """Deliver a batch in one of the container kinds fill_n must accept."""
    if kind == "list":
        return list(values) if not isinstance(values, np.ndarray) else values.tolist()
    if kind == "tuple":
        return tuple(values) if not isinstance(values, np.ndarray) else tuple(values.tolist())
    if kind == "ndarray":
        return np.asarray(values, dtype=float)
    if kind == "iter":
        return iter(list(values))
    if kind == "series":
        import pandas as pd

        return pd.Series(np.asarray(values, dtype=float), index=np.arange(len(values))[::-1] + 3)
    raise ValueError(kind)


def q32(x):
    """The float64 number that a float32 of x denotes (so that a value can be delivered in either precision)."""
    if isinstance(x, list):
        return [q32(v) for v in x]
    if x is None or (isinstance(x, float) and x != x):
        return x
    return float(np.float32(x))


# ----------------------------------------------------------------------------
# caller-owned memory: the same numbers in another layout / with a caller who looks back
# ----------------------------------------------------------------------------
MEM_MODES = ["fresh", "fresh", "fresh", "readonly", "strided", "fortran", "byteswapped", "scribble", "masked"]


def in_memory_layout(arr, mode):
    """The same array contents as the caller might really hold them: read-only, as a strided view of a larger
    buffer, in Fortran order, in the other byte order, as a masked array without masked items.  "scribble": an own
    copy that the caller overwrites after the call (see scribble_over)."""
    arr = np.asarray(arr)
    if mode == "readonly":
        out = arr.copy()
        out.setflags(write=False)
        return out
    if mode == "strided":
        big = np.zeros(arr.shape[:-1] + (2 * arr.shape[-1],) if arr.ndim else (2,), dtype=arr.dtype)
        if arr.ndim == 0:
            return arr
        big[..., ::2] = arr
        big[..., 1::2] = -777
        return big[..., ::2]
    if mode == "fortran":
        return np.asfortranarray(arr)
    if mode == "byteswapped":
        if arr.dtype.kind in "fiu" and arr.dtype.itemsize > 1:
            return arr.astype(arr.dtype.newbyteorder())
        return arr
    if mode == "masked":
        return np.ma.masked_array(arr.copy(), mask=False)
    if mode == "scribble":
        return arr.copy()
    return arr


def scribble_over(arr):
    """The caller re-uses its buffer for something else after the call."""
    if isinstance(arr, np.ndarray) and arr.flags.writeable and arr.size:
        if arr.dtype.kind == "f":
            arr[...] = -12345.678
        elif arr.dtype.kind in "iu":
            arr[...] = 77
        return True
    return False


def hand_over(ctx, mem, *arrays):
    """Arrays of one call in the memory layout `mem`; returns (arrays..., held) - held: what the caller may scribble on."""
    held = []
    out = []
    for a in arrays:
        if mem and mem != "fresh" and isinstance(a, np.ndarray) and a.size:
            a = in_memory_layout(a, mem)
            held.append(a)
        out.append(a)
    if held:
        ctx.fault("layout:" + mem)
    return out, held


def scribble_check(ctx, h, held, mem, snap, snap_diff, prop, what):
    """The caller overwrites the buffers it handed over: nothing the histogram reports may change."""
    if mem != "scribble" or not held:
        return
    pre = snap(h)
    if not any([scribble_over(a) for a in held]):
        return
    d = snap_diff(pre, snap(h))
    if d:
        ctx.violation(f"{prop}/callers-array-untouched", f"{prop}/keeps-callers-buffer/{what}",
                      f"after {what} the caller overwrote the arrays it had passed in and the histogram changed in {d}: "
                      f"it still refers to the caller's memory")


LAYOUT_FAULTS = ["layout:readonly", "layout:strided", "layout:fortran", "layout:byteswapped", "layout:scribble",
                 "layout:masked"]
