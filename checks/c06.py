"""C06 - scaling, division and normalisation are exactly linear.

Scaling chains on live nodes: a node is produced by the stream pipeline (so it
carries missed values, custom errors, int or float dtype, 1-D / N-D, or is a
collection), then a seeded chain of h*c, c*h, h/c, *=, /=, normalize,
partial_normalize, collection normalisations - interleaved with further fills
and with refusal probes (h*h, h/h, c/h, negative factor, array operand).
Step-wise linear model: the expected arrays after a step are the arrays
observed before it transformed by the step's formula, so no tolerance
accumulates over a chain.
"""
from __future__ import annotations

import math

import numpy as np

import sim  # noqa: F401
from sim import build
from sim.core import attempt, bulk_tier, exc_tag
from sim.oracle import missed_tuple, snap, snap_diff

PROPERTY = "C06"
LEVEL = "exploration"
RUNS = {"quick": 100000, "thorough": 2000000}
WALL = {"quick": 240, "thorough": 1500}
PARTITIONS = [{"name": "default", "env": {}}]
FAULT_KINDS = ["refusal_probe_under_free_arithmetics", "member_changed_directly", "built_from_callers_arrays", "refusal_probe", "fill_between_scalings", "int_dtype_scaled", "numpy_scalar", "chain>=3",
               "missed_present", "custom_errors", "inplace"]
RULE = ("one run = one live histogram (1-3 D, any binning family, int/float dtype, with missed weight and optional "
        "custom errors) or a collection, then a seeded chain (<= 10) of scalings / divisions / normalisations "
        "(python and numpy scalars, in-place and copying) interleaved with fills and refusal probes; distinct = "
        "distinct sequence of (op, scalar type, dtype before, outcome); non-trivial = chain of >= 2 linear steps or a "
        "refusal probe or a fill between scalings")
COMPONENTS = {
    "real": ["HistogramBase.__mul__/__rmul__/__imul__/__truediv__/__itruediv__/normalize", "Statistics.__mul__",
             "Histogram2D.partial_normalize", "HistogramCollection.normalize_bins/normalize_all", "numpy"],
    "simulated": ["the stream that produced the node and the history of scalings/fills/refusals applied to it"],
}
ASSUMPTIONS = [
    "relative tolerance per result dtype for one multiplication/division: float64/float128 1e-12, float32 1e-6, "
    "float16 2e-3 (numpy computes in the array's own precision); integer results exact",
    "normalisation identities within 1e-9 (as stated in DESIGN 6)",
    "scalars are finite and non-zero (given quantifier)",
]

SCALARS = [("int", 2), ("int", 3), ("int", 7), ("float", 0.5), ("float", 2.0), ("float", 0.1), ("float", 1 / 3),
           ("float", 2.5), ("float", 1e-3), ("float", 1e3), ("np.int32", 2), ("np.int64", 5), ("np.float32", 0.5),
           ("np.float64", 0.25), ("np.float64", 0.7), ("np.float32", 3.0),
           # extreme but finite, non-zero factors (given quantifier: all finite non-zero scalars)
           ("float", 1e-11), ("float", 1e11), ("np.float64", 3e-12), ("int", 70000), ("np.int32", 70000),
           ("np.int16", 300), ("np.int64", 100000)]


def mk_scalar(t, v):
    if t == "int":
        return int(v)
    if t == "float":
        return float(v)
    return getattr(np, t.split(".")[1])(v)


# ----------------------------------------------------------------------------
# generation
# ----------------------------------------------------------------------------
def generate(rng, seed, part):
    if rng.random() < 0.15:
        return generate_collection(rng)
    ndim = rng.choice([1, 1, 2, 2, 3])
    bulk = bulk_tier(rng)
    mb = {1: 6, 2: 4, 3: 3}[ndim] if not bulk else {1: rng.choice([300, 5000]), 2: 80, 3: 18}[ndim]
    axes = [build.gen_axis(rng, max_bins=mb, min_bins=1 if not bulk else (mb * 9) // 10, allow_gaps=False,
                           families=["static", "numpy", "fixed", "exp"] if not bulk else ["numpy", "fixed"])
            for _ in range(ndim)]
    wkind = rng.choice(build.WEIGHT_KINDS)
    pools = [build.axis_pool(build.spec_bins(a)) for a in axes]
    n = rng.choice([0, 1, 3, 6, 12, 20])
    if bulk:
        n = rng.choice([20, 3000])
    entries = []
    for _ in range(n + 6):
        vals = [build.draw_value(rng, p, inside_only=rng.random() < 0.7) for p in pools]
        entries.append([vals[0] if ndim == 1 else vals, build.draw_weight(rng, wkind)])
    dtype = build.pick_dtype(rng, wkind)
    if bulk and dtype in ("float16", "int16"):
        dtype = {"float16": "float32", "int16": "int32"}[dtype]  # thousands of entries: beyond what 11 bits can count
    cfg = {"ndim": ndim, "axes": axes, "weights": wkind, "dtype": dtype,
           "initial": n, "custom_errors": rng.random() < 0.2, "names": rng.random() < 0.5,
           "keep_missed": rng.random() < 0.8,
           # the node rebuilt through its class constructor from arrays the caller keeps (contents, squared errors,
           # missed count): scaling the histogram must never write into them
           "from_callers_arrays": rng.random() < 0.25}
    ops = []
    nxt_entry = n
    for _ in range(rng.randint(1, 10)):
        r = rng.random()
        t, v = rng.choice(SCALARS)
        if r < 0.16:
            ops.append({"op": "mul", "t": t, "c": v})
        elif r < 0.24:
            ops.append({"op": "rmul", "t": t, "c": v})
        elif r < 0.38:
            ops.append({"op": "div", "t": t, "c": v})
        elif r < 0.48:
            ops.append({"op": "imul", "t": t, "c": v})
        elif r < 0.56:
            ops.append({"op": "idiv", "t": t, "c": v})
        elif r < 0.62:
            ops.append({"op": "roundtrip", "t": t, "c": v})
        elif r < 0.72:
            ops.append({"op": "normalize", "inplace": rng.random() < 0.5, "percent": rng.random() < 0.4})
        elif r < 0.78 and ndim == 2:
            ops.append({"op": "partial_normalize", "axis": rng.choice([0, 1]), "inplace": rng.random() < 0.5,
                        "by_name": rng.random() < 0.4})
        elif r < 0.88 and nxt_entry < len(entries):
            ops.append({"op": "fill", "i": nxt_entry})
            nxt_entry += 1
        else:
            ops.append({"op": "refuse", "kind": rng.choice(["h*h", "h/h", "c/h", "neg_mul", "neg_div", "neg_imul",
                                                             "array_mul", "array_div", "list_mul",
                                                             # refused whatever the setting of free arithmetics
                                                             "h*h@free", "h/h@free", "c/h@free", "h/=h@free", "h*=h@free"]),
                        "c": rng.choice([-1, -2.5, -0.5, -3])})
    return {"property": PROPERTY, "scenario": "scaling_chain", "config": cfg, "entries": entries, "ops": ops}


def generate_collection(rng):
    axis = build.gen_axis(rng, max_bins=5, allow_gaps=False, families=["static", "numpy", "fixed"])
    pool = build.axis_pool(build.spec_bins(axis))
    k = rng.randint(1, 4)
    members = []
    for _ in range(k):
        n = rng.choice([0, 2, 5, 10])
        members.append([build.draw_value(rng, pool, inside_only=rng.random() < 0.8) for _ in range(n)])
    ops = []
    for _ in range(rng.randint(1, 4)):
        r = rng.random()
        if r < 0.55:
            ops.append({"op": rng.choice(["normalize_bins", "normalize_all"]), "inplace": rng.random() < 0.5})
        elif r < 0.70:
            ops.append({"op": "sum"})  # (read-out between two normalisations; judged by C05, not here)
        else:
            # a member is changed directly, not through the collection
            ops.append({"op": "member", "k": rng.randrange(k), "how": rng.choice(["imul", "idiv", "fill", "fill_n"]),
                        "arg": rng.randrange(64), "by_name": rng.random() < 0.5})
    ops.append({"op": rng.choice(["normalize_bins", "normalize_all"]), "inplace": rng.random() < 0.5})
    return {"property": PROPERTY, "scenario": "collection", "config": {"axis": axis, "members": members},
            "entries": [], "ops": ops}


# ----------------------------------------------------------------------------
# execution
# ----------------------------------------------------------------------------
def rel_tol(dtype):
    d = np.dtype(dtype)
    if d == np.float16:
        return 2e-3
    if d == np.float32:
        return 1e-6
    return 1e-12


def close_arrays(exp, got, rtol):
    from sim.oracle import chaos

    if chaos():
        return False
    exp = np.asarray(exp, dtype=np.float64)
    got = np.asarray(got, dtype=np.float64)
    if exp.shape != got.shape:
        return False
    both_nan = np.isnan(exp) & np.isnan(got)
    with np.errstate(invalid="ignore"):
        ok = both_nan | (exp == got) | (np.abs(exp - got) <= rtol * np.maximum(np.abs(exp), np.abs(got)) + 1e-300)
    return bool(np.all(ok))


def arrs(h):
    return (np.array(h.frequencies, dtype=np.float64), np.array(h.errors2, dtype=np.float64),
            np.array(missed_tuple(h), dtype=np.float64))


def stats5(h):
    st = getattr(h, "statistics", None)
    if st is None:
        return None
    with np.errstate(all="ignore"):
        return (float(st.weight), float(st.mean()), float(st.variance()), float(st.min), float(st.max))


def make_node(cfg, entries):
    from physt import h as f_h, h1 as f_h1

    ndim = cfg["ndim"]
    idx = list(range(min(cfg["initial"], len(entries))))
    data = np.asarray([entries[i][0] for i in idx], dtype=float).reshape(len(idx), ndim)
    weights = None if cfg["weights"] == "none" else np.asarray(
        [entries[i][1] for i in idx], dtype=np.int64 if cfg["weights"] == "int" else np.float64)
    bins = [build.make_binning(a) for a in cfg["axes"]]
    kw = {} if weights is None else {"weights": weights}
    if cfg.get("names"):
        kw["name"] = "node"
    if ndim == 1:
        if cfg["dtype"]:
            kw["dtype"] = np.dtype(cfg["dtype"])
        if not cfg.get("keep_missed", True):
            kw["keep_missed"] = False
        h = f_h1(data[:, 0], bins[0], **kw)
    else:
        h = f_h(data, bins, **kw)
        if cfg["dtype"]:
            h.set_dtype(np.dtype(cfg["dtype"]))
    if cfg.get("custom_errors"):
        h.errors2 = np.asarray(h.frequencies) * 2 + 1
    return h


def execute(plan, ctx):
    if plan["scenario"] == "collection":
        return execute_collection(plan, ctx)
    cfg = plan["config"]
    entries = plan["entries"]
    ndim = cfg["ndim"]
    ok, h = attempt(make_node, cfg, entries)
    if not ok:
        ctx.probe("setup_failed:" + type(h).__name__)
        return
    kind = "1D" if ndim == 1 else "ND"
    callers = []
    if cfg.get("from_callers_arrays") and not plan["config"].get("names"):
        def rebuild():
            kw = {"frequencies": np.array(h.frequencies), "errors2": np.array(h.errors2), "dtype": h.dtype}
            if ndim == 1:
                return type(h)(h.binning.copy(), keep_missed=h.keep_missed, underflow=h.underflow,
                               overflow=h.overflow, inner_missed=h.inner_missed, stats=h.statistics, **kw), kw
            kw["missed"] = np.array([h.missed], dtype=h.dtype)
            return type(h)([b.copy() for b in h.binnings], **kw), kw
        ok_r, res_r = attempt(rebuild)
        if ok_r and not snap_diff(snap(h), snap(res_r[0]), ignore=("name", "title", "meta", "axis_names")):
            h, kw_r = res_r
            callers = [(k, v, v.copy()) for k, v in kw_r.items() if isinstance(v, np.ndarray)]
            ctx.fault("built_from_callers_arrays")
        else:
            ctx.probe("rebuild_from_arrays_skipped")
    if any(x != 0 and not math.isnan(x) for x in missed_tuple(h)):
        ctx.fault("missed_present")
    if cfg.get("custom_errors"):
        ctx.fault("custom_errors")
    ctx.state(ndim, str(h.dtype), cfg["weights"], tuple(a["kind"] for a in cfg["axes"]))
    linear_steps = 0
    last_linear = False
    stat_rtol = [1e-9]

    def check_linear(res, before, factor, opname, pre_dtype, stats_before):
        """res arrays == before arrays * factor (errors2 * factor**2)."""
        f0, e0, m0 = before
        f1, e1, m1 = arrs(res)
        rt = rel_tol(res.dtype)
        if not close_arrays(f0 * factor, f1, rt):
            ctx.violation("C06/linear-contents", f"C06/contents-not-scaled/{kind}/{opname}",
                          f"{opname} by {factor!r} (dtype {pre_dtype}->{res.dtype}): contents {f1.tolist()} "
                          f"!= {f0.tolist()} * factor"[:1500])
        if not close_arrays(e0 * factor * factor, e1, rt * 2):
            ctx.violation("C06/linear-errors", f"C06/errors2-not-scaled-by-square/{kind}/{opname}",
                          f"{opname} by {factor!r}: errors2 {e1.tolist()} != {e0.tolist()} * factor**2"[:1500])
        if not close_arrays(m0 * factor, m1, rt):
            ctx.violation("C06/linear-missed", f"C06/missed-not-scaled/{kind}/{opname}",
                          f"{opname} by {factor!r}: missed {m1.tolist()} != {m0.tolist()} * factor")
        check_linear_stats_only(ctx, res, stats_before, factor, opname, ndim, rtol=stat_rtol[0])

    for step, op in enumerate(list(plan["ops"]) + [{"op": "__end__"}]):
        ctx.step = min(step, max(len(plan["ops"]) - 1, 0))
        for name_, arr_, orig_ in callers:
            if not np.array_equal(arr_, orig_, equal_nan=True):
                last = plan["ops"][step - 1]["op"] if step else "construction"
                # not part of C06's statement (the scaled histogram itself is right): counted only. The same aliasing
                # is reported by C03 through replicas built from one caller-owned array.
                ctx.probe(f"callers_{name_}_array_modified_by_scaling(C03)")
                callers = [c_ for c_ in callers if c_[0] != name_]
        if op["op"] == "__end__":
            break
        ctx.advance()
        o = op["op"]
        pre = snap(h)
        before = arrs(h)
        pre_dtype = str(h.dtype)
        sb = stats5(h) if ndim == 1 else None
        if o in ("mul", "rmul", "div", "imul", "idiv", "roundtrip"):
            c = mk_scalar(op["t"], op["c"])
            cf = float(c)
            # precondition (values within the range of the result type): an integer result type that cannot
            # hold contents*c or errors2*c*c is outside the statement - numpy integers wrap around by design
            if o in ("mul", "rmul", "imul", "roundtrip"):
                rdt = np.promote_types(h.dtype, np.asarray(c).dtype)
                if rdt.kind in "iu":
                    lim = float(np.iinfo(rdt).max)
                    if (float(np.abs(before[0]).max(initial=0)) * abs(cf) >= lim
                            or float(np.abs(before[1]).max(initial=0)) * cf * cf >= lim
                            or float(np.abs(np.nan_to_num(before[2])).max(initial=0)) * abs(cf) >= lim):
                        ctx.probe("scaling_skipped_integer_range")
                        continue
            if op["t"].startswith("np."):
                ctx.fault("numpy_scalar")
            if np.dtype(h.dtype).kind in "iu":
                ctx.fault("int_dtype_scaled")
            if o == "mul":
                ok, res = attempt(lambda: h * c)
            elif o == "rmul":
                ok, res = attempt(lambda: (c * h, h * c))
            elif o == "div":
                ok, res = attempt(lambda: h / c)
            elif o == "imul":
                def f():
                    x = h
                    x *= c
                    return x
                ok, res = attempt(f)
                ctx.fault("inplace")
            elif o == "idiv":
                def g():
                    x = h
                    x /= c
                    return x
                ok, res = attempt(g)
                ctx.fault("inplace")
            else:
                ok, res = attempt(lambda: (h * c) / c)
            ctx.ev("node", f"{o}:{op['t']}", op["c"], "ok" if ok else exc_tag(res))
            ctx.abstract(o, op["t"], pre_dtype, ok)
            if not ok:
                ctx.violation("C06/valid-scaling-accepted", f"C06/scaling-raised/{kind}/{o}/{exc_tag(res)}",
                              f"{o} with finite non-zero positive scalar {c!r} ({op['t']}) on dtype {pre_dtype} raised {res!r}")
            linear_steps += 1
            if last_linear:
                ctx.nontrivial += 1
            last_linear = True
            if o in ("mul", "div", "rmul", "roundtrip"):
                d = snap_diff(pre, snap(h))
                if d:
                    ctx.violation("C06/operand-untouched", f"C06/operand-modified/{kind}/{o}",
                                  f"{o} (copying variant) changed the operand: {d}")
            if o == "rmul":
                ch, hc = res
                if not hasattr(ch, "binnings"):
                    ctx.violation("C06/commutes", f"C06/c*h-is-not-a-histogram/{op['t'].split('.')[0]}-scalar",
                                  f"c*h with c={c!r} ({op['t']}) returned {type(ch).__name__} {ch!r}, h*c returned {hc!r}"[:800],
                                  stop=False)
                    ch = hc
                d = snap_diff(snap(ch), snap(hc))
                if d:
                    ctx.violation("C06/commutes", f"C06/c*h!=h*c/{kind}", f"c*h and h*c differ in {d} for c={c!r}")
                res = ch
            if o == "roundtrip":
                f0, e0, m0 = before
                f1, e1, m1 = arrs(res)
                rt = max(rel_tol(res.dtype), rel_tol(pre_dtype) if np.dtype(pre_dtype).kind == "f" else 0) * 4
                if not (close_arrays(f0, f1, rt) and close_arrays(e0, e1, rt * 2) and close_arrays(m0, m1, rt)):
                    ctx.violation("C06/roundtrip", f"C06/(h*c)/c!=h/{kind}",
                                  f"(h*{c!r})/{c!r} does not reproduce h: contents {f1.tolist()} vs {f0.tolist()}"[:1500])
                check_bins_same(ctx, pre, snap(res), kind, o)
                continue
            factor = cf if o in ("mul", "rmul", "imul") else 1.0 / cf
            if o in ("div", "idiv"):
                # division is a division, not a multiplication by the reciprocal: expected values computed the same way
                f0, e0, m0 = before
                f1, e1, m1 = arrs(res)
                rt = rel_tol(res.dtype) * 4
                if not close_arrays(f0 / cf, f1, rt):
                    ctx.violation("C06/linear-contents", f"C06/contents-not-scaled/{kind}/{o}",
                                  f"{o} by {c!r}: contents {f1.tolist()} != {f0.tolist()} / c"[:1500])
                if not close_arrays(e0 / (cf * cf), e1, rt * 2):
                    ctx.violation("C06/linear-errors", f"C06/errors2-not-scaled-by-square/{kind}/{o}",
                                  f"{o} by {c!r}: errors2 {e1.tolist()} != {e0.tolist()} / c**2"[:1500])
                if not close_arrays(m0 / cf, m1, rt):
                    ctx.violation("C06/linear-missed", f"C06/missed-not-scaled/{kind}/{o}",
                                  f"{o} by {c!r}: missed {m1.tolist()} != {m0.tolist()} / c")
                check_linear_stats_only(ctx, res, sb, 1.0 / cf, o, ndim, rtol=stat_rtol[0])
            else:
                check_linear(res, before, factor, o, pre_dtype, sb)
            check_bins_same(ctx, pre, snap(res), kind, o)
            if np.dtype(res.dtype).kind in "iu" and (o in ("div", "idiv") or isinstance(c, (float, np.floating))):
                ctx.violation("C06/linear-contents", f"C06/integer-result-of-float-scaling/{kind}/{o}",
                              f"{o} by {c!r} left an integer dtype {res.dtype}")
            if o in ("imul", "idiv"):
                h = res
        elif o == "normalize":
            total = h.total
            if not (total > 0) or math.isinf(total):
                continue
            ok, res = attempt(h.normalize, inplace=op["inplace"], percent=op["percent"])
            ctx.ev("node", f"normalize:{op['inplace']}:{op['percent']}", None, "ok" if ok else exc_tag(res))
            ctx.abstract(o, op["inplace"], op["percent"], pre_dtype, ok)
            if not ok:
                ctx.violation("C06/valid-scaling-accepted", f"C06/scaling-raised/{kind}/normalize/{exc_tag(res)}",
                              f"normalize(inplace={op['inplace']}, percent={op['percent']}) with total {total!r} raised {res!r}")
            target = 100.0 if op["percent"] else 1.0
            if not abs(res.total - target) <= 1e-9 * target:
                ctx.violation("C06/normalize-total", f"C06/normalize-total/{kind}/percent={op['percent']}",
                              f"normalize(percent={op['percent']}): total is {res.total!r}, expected {target}")
            f0, e0, m0 = before
            f1, e1, m1 = arrs(res)
            k = target / total
            rt = max(rel_tol(res.dtype) * 8, 1e-9)
            if not close_arrays(f0 * k, f1, rt):
                ctx.violation("C06/normalize-proportions", f"C06/normalize-proportions/{kind}",
                              f"normalize: contents {f1.tolist()} are not {f0.tolist()} * {k!r}"[:1500])
            if not close_arrays(e0 * k * k, e1, rt * 2):
                ctx.violation("C06/linear-errors", f"C06/errors2-not-scaled-by-square/{kind}/normalize",
                              f"normalize: errors2 {e1.tolist()} are not {e0.tolist()} * {k * k!r}"[:1500])
            if not close_arrays(m0 * k, m1, rt):
                ctx.violation("C06/linear-missed", f"C06/missed-not-scaled/{kind}/normalize",
                              f"normalize: missed {m1.tolist()} is not {m0.tolist()} * {k!r}")
            check_bins_same(ctx, pre, snap(res), kind, o)
            check_linear_stats_only(ctx, res, sb, k, "normalize", ndim, rtol=stat_rtol[0])
            if op["inplace"]:
                if res is not h:
                    ctx.violation("C06/inplace", f"C06/normalize-inplace-returns-other/{kind}",
                                  "normalize(inplace=True) did not return the histogram itself")
                ctx.fault("inplace")
            else:
                d = snap_diff(pre, snap(h))
                if d:
                    ctx.violation("C06/operand-untouched", f"C06/operand-modified/{kind}/normalize",
                                  f"normalize(inplace=False) changed the operand: {d}")
            linear_steps += 1
            last_linear = True
            if op["inplace"]:
                h = res
        elif o == "partial_normalize":
            if ndim != 2:
                continue
            axis_arg = op["axis"]
            if op.get("by_name"):
                # the axis addressed by its name (given by the user after construction), positionally or as keyword
                h.axis_names = ("first", "second")
                axis_arg = h.axis_names[op["axis"]]
                ctx.probe("axis_by_name")
                pre = snap(h)
            ok, res = attempt(h.partial_normalize, axis_arg, inplace=op["inplace"])
            ctx.ev("node", f"partial_normalize:{op['axis']}:{op['inplace']}", None, "ok" if ok else exc_tag(res))
            ctx.abstract(o, op["axis"], op["inplace"], pre_dtype, ok)
            if not ok:
                ctx.violation("C06/valid-scaling-accepted", f"C06/scaling-raised/ND/partial_normalize/{exc_tag(res)}",
                              f"partial_normalize(axis={op['axis']}) raised {res!r}")
            f0 = before[0]
            f1 = arrs(res)[0]
            sums0 = f0.sum(axis=op["axis"])
            sums1 = f1.sum(axis=op["axis"])
            for j, (s0, s1) in enumerate(zip(sums0, sums1)):
                if s0 != 0 and np.isfinite(s0) and not abs(s1 - 1.0) <= 1e-9:
                    ctx.violation("C06/partial-normalize", f"C06/partial_normalize-sum/axis={op['axis']}",
                                  f"partial_normalize(axis={op['axis']}): slice {j} sums to {s1!r} (was {s0!r}), expected 1")
                if s0 == 0 and s1 != 0:
                    ctx.violation("C06/partial-normalize", f"C06/partial_normalize-zero-slice/axis={op['axis']}",
                                  f"partial_normalize: an all-zero slice became {s1!r}")
            check_bins_same(ctx, pre, snap(res), kind, o)
            if not op["inplace"]:
                d = snap_diff(pre, snap(h))
                if d:
                    ctx.violation("C06/operand-untouched", f"C06/operand-modified/ND/partial_normalize",
                                  f"partial_normalize(inplace=False) changed the operand: {d}")
            else:
                h = res
                ctx.fault("inplace")
            last_linear = False
        elif o == "fill":
            i = op["i"]
            if i >= len(entries):
                continue
            v, w = entries[i]
            ok, res = attempt(h.fill, v) if w is None else attempt(h.fill, v, w)
            ctx.ev("node", "fill", i, "ok" if ok else exc_tag(res))
            ctx.abstract("fill", ok)
            if not ok:
                ctx.probe("fill_failed:" + type(res).__name__)
                return
            if linear_steps:
                ctx.fault("fill_between_scalings")
            last_linear = False
        elif o == "refuse":
            k = op["kind"]
            c = op["c"]
            arr = np.ones(h.shape)
            other = h.copy()
            free = k.endswith("@free")
            k = k.split("@")[0]

            def idiv_h():
                x = h
                x /= other
                return x

            def imul_h():
                x = h
                x *= other
                return x
            fn = {
                "h/=h": idiv_h, "h*=h": imul_h,
                "h*h": lambda: h * other, "h/h": lambda: h / other, "c/h": lambda: 2 / h,
                "neg_mul": lambda: h * c, "neg_div": lambda: h / c,
                "neg_imul": lambda: h.__imul__(c),
                "array_mul": lambda: h * arr, "array_div": lambda: h / arr,
                "list_mul": lambda: h * arr.tolist(),
            }[k]
            if free:
                from physt.config import config as _config

                with _config.enable_free_arithmetics():
                    ok, res = attempt(fn)
                k = k + "@free-arithmetics"
                ctx.fault("refusal_probe_under_free_arithmetics")
            else:
                ok, res = attempt(fn)
            ctx.fault("refusal_probe")
            ctx.ev("node", f"refuse:{k}", None, "accepted" if ok else exc_tag(res))
            ctx.abstract("refuse", k, ok)
            if ok:
                empty = "all-zero" if not np.any(before[0]) else "nonzero"
                ctx.violation("C06/refusal", f"C06/not-refused/{k}/{empty}",
                              f"{k} (c={c!r}) was accepted on a histogram with contents {before[0].tolist()} and missed "
                              f"{before[2].tolist()} and gave {res!r}"[:1500])
            post = snap(h)
            d = [x for x in snap_diff(pre, post, ignore=("dtype",)) if not lossless_only(x, pre, post)]
            if d:
                ctx.violation("C06/refusal", f"C06/refused-but-changed/{k}",
                              f"refused {k} changed the histogram: {d}")
            last_linear = False
    if linear_steps >= 3:
        ctx.fault("chain>=3")


def lossless_only(field, pre, post):
    from checks.c05 import lossless_promotion_only

    return lossless_promotion_only(field, pre, post)


def check_linear_stats_only(ctx, res, sb, factor, opname, ndim, rtol=1e-9):
    if sb is None or ndim != 1 or not factor > 0:
        return
    s1 = stats5(res)
    w0, mean0, var0, lo0, hi0 = sb
    w1, mean1, var1, lo1, hi1 = s1
    for name, a, b, scale in (("mean", mean0, mean1, abs(mean0) + 1e-300),
                              ("variance", var0, var1, abs(var0) + mean0 * mean0 + 1e-300),
                              ("min", lo0, lo1, 0.0), ("max", hi0, hi1, 0.0),
                              ("weight", w0 * factor, w1, abs(w0 * factor) + 1e-300)):
        if math.isnan(a):
            continue
        if not (a == b or abs(a - b) <= rtol * scale):
            ctx.violation("C06/statistics-invariant", f"C06/statistics.{name}/{opname}",
                          f"{opname} by {factor!r}: statistics {name} was {a!r}, now {b!r} "
                          f"(mean/variance/min/max must not change, weight scales)")


def check_bins_same(ctx, pre, post, kind, opname):
    if pre["axes"] != post["axes"]:
        ctx.violation("C06/bins-untouched", f"C06/bins-changed/{kind}/{opname}", f"{opname} changed the bins")


def execute_collection(plan, ctx):
    from physt.histogram1d import Histogram1D
    from physt.histogram_collection import HistogramCollection

    cfg = plan["config"]
    members = []
    for k, vals in enumerate(cfg["members"]):
        h = Histogram1D(build.make_binning(cfg["axis"]), name=f"m{k}")
        ok, res = attempt(h.fill_n, vals)
        if not ok:
            ctx.probe("setup_failed:" + type(res).__name__)
            return
        members.append(h)
    ok, col = attempt(lambda: HistogramCollection(*members, name="coll"))
    if not ok:
        ctx.probe("setup_failed:" + type(col).__name__)
        return
    ctx.state("collection", len(members))
    for step, op in enumerate(plan["ops"]):
        ctx.step = step
        ctx.advance()
        before = [np.array(m.frequencies, dtype=np.float64) for m in col.histograms]
        pres = [snap(m) for m in col.histograms]
        o = op["op"]
        if any(not np.all(np.isfinite(b)) for b in before):
            return  # an all-zero bin was normalised earlier (documented: result is inf/nan)
        if o == "sum":
            attempt(col.sum)
            continue
        if o == "member":
            m = col.histograms[op["k"] % len(col.histograms)]
            if op.get("by_name") and m.name:
                m = col[m.name]
            lo = float(np.asarray(m.bins)[0].mean())
            with np.errstate(all="ignore"):
                if op["how"] == "imul":
                    attempt(lambda: m.__imul__([3, 0.5, 2][op["arg"] % 3]))
                elif op["how"] == "idiv":
                    attempt(lambda: m.__itruediv__([2.0, 4][op["arg"] % 2]))
                elif op["how"] == "fill":
                    attempt(m.fill, lo, 1 + op["arg"] % 3)
                else:
                    attempt(m.fill_n, [lo, lo])
            ctx.fault("member_changed_directly")
            ctx.abstract("member", op["how"])
            continue
        if o == "normalize_all" and any(not b.sum() > 0 for b in before):
            continue  # normalize() is only defined for a positive total
        with np.errstate(all="ignore"):
            ok, res = attempt(getattr(col, o), inplace=op["inplace"])
        ctx.ev("coll", f"{o}:{op['inplace']}", None, "ok" if ok else exc_tag(res))
        ctx.abstract(o, op["inplace"], len(members), ok)
        if not ok:
            ctx.violation("C06/valid-scaling-accepted", f"C06/scaling-raised/collection/{o}/{exc_tag(res)}",
                          f"{o}(inplace={op['inplace']}) raised {res!r}")
        if op["inplace"]:
            ctx.fault("inplace")
            if res is not col:
                ctx.violation("C06/inplace", f"C06/{o}-inplace-returns-other", f"{o}(inplace=True) returned another object")
        else:
            for k, (m, pre) in enumerate(zip(col.histograms, pres)):
                d = snap_diff(pre, snap(m))
                if d:
                    ctx.violation("C06/operand-untouched", f"C06/operand-modified/collection/{o}",
                                  f"{o}(inplace=False) changed member {k}: {d}")
        after = [np.array(m.frequencies, dtype=np.float64) for m in res.histograms]
        if o == "normalize_bins":
            tot0 = np.sum(before, axis=0) if before else np.zeros(0)
            tot1 = np.sum(after, axis=0) if after else np.zeros(0)
            for j in range(tot0.shape[0]):
                if tot0[j] != 0 and not abs(tot1[j] - 1.0) <= 1e-9:
                    ctx.violation("C06/collection-shares", "C06/normalize_bins-shares",
                                  f"normalize_bins: the members' shares in bin {j} sum to {tot1[j]!r}, expected 1 "
                                  f"(bin total was {tot0[j]!r})")
            for k, (b, a) in enumerate(zip(before, after)):
                nz = tot0 != 0
                if not close_arrays(b[nz] / tot0[nz], a[nz], 1e-9):
                    ctx.violation("C06/collection-shares", "C06/normalize_bins-proportions",
                                  f"normalize_bins: member {k} holds {a.tolist()}, expected {b.tolist()} / {tot0.tolist()}"[:1500])
        else:
            for k, (b, a) in enumerate(zip(before, after)):
                if b.sum() > 0 and not abs(a.sum() - 1.0) <= 1e-9:
                    ctx.violation("C06/normalize-total", "C06/normalize_all-total",
                                  f"normalize_all: member {k} total is {a.sum()!r}, expected 1")
        if op["inplace"]:
            col = res
