"""Simulated dask worker pool.

dask's own scheduling logic (`dask.local.get_async`, `dask.order`, graph
construction in physt.compat.dask and dask.array) runs for real.  What is
simulated is the pool: `SimExecutor.submit` only records a task; whenever the
scheduler blocks on its result queue (`dask.local.queue_get`, replaced while a
simulated pool is active) the simulator picks one in-flight task with its PRNG,
runs it on the "worker" (optionally twice: duplicate execution whose first
result is delivered) and completes its future.  No real thread exists, so one
pool seed is one exactly repeatable completion order.
"""
from __future__ import annotations

import random
from concurrent.futures import Future

import numpy as np

from .core import HarnessError, attempt, exc_tag
from .oracle import STAT_FIELDS, arrays_equal, first_diff, missed_tuple


class SimPool:
    def __init__(self, seed, workers, dup_rate, ctx):
        self.rng = random.Random(seed)
        self.workers = workers
        self.dup_rate = dup_rate
        self.ctx = ctx
        self.pending = []  # (future, fn, args)
        self.completed = 0
        self.max_inflight = 0
        self.reordered = 0

    def submit(self, fn, *args, **kwargs):
        fut = Future()
        self.pending.append((fut, fn, args, kwargs))
        self.max_inflight = max(self.max_inflight, len(self.pending))
        return fut

    def complete_one(self):
        if not self.pending:
            raise HarnessError("dask scheduler waits for a result but no task is in flight")
        k = self.rng.randrange(len(self.pending))
        if k != 0:
            self.reordered += 1
            self.ctx.fault("dask_task_reorder")
        fut, fn, args, kwargs = self.pending.pop(k)
        try:
            res = fn(*args, **kwargs)
            if self.dup_rate and self.rng.random() < self.dup_rate:
                fn(*args, **kwargs)  # the task runs again (speculative duplicate); first result wins
                self.ctx.fault("dask_duplicate_exec")
            fut.set_result(res)
        except BaseException as exc:  # noqa: BLE001
            fut.set_exception(exc)
        self.completed += 1
        keys = [a[0] for a in args[0]] if args else []
        self.ctx.ev("pool", "complete", str([short_key(x) for x in keys]), k)

    def get(self, graph, key):
        """A `dask_method` callable: dask's async scheduler over this simulated pool."""
        import dask.local

        pool = self

        def sim_queue_get(q):
            if q.empty():
                pool.complete_one()
            return q.get()

        original = dask.local.queue_get
        dask.local.queue_get = sim_queue_get
        try:
            return dask.local.get_async(self.submit, self.workers, graph, key)
        finally:
            dask.local.queue_get = original


def short_key(k):
    s = str(k)
    return s[-12:]


def run_dask_scenario(plan, ctx):
    import dask.array as da
    import physt
    from physt.compat import dask as pd

    cfg = plan["config"]
    ndim = cfg["ndim"]
    rows = plan["entries"]
    n = len(rows)
    data = np.asarray(rows, dtype=float).reshape(n, ndim)
    sizes = [s for s in cfg["chunks"] if s > 0]
    if sum(sizes) != n or not sizes:
        sizes = [n]
    if len(sizes) > 1:
        ctx.fault("dask_chunking")
    if cfg["workers"] > 1:
        ctx.fault("dask_workers>1")
    pool = SimPool(cfg["pool_seed"], cfg["workers"], cfg["dup_rate"], ctx)
    w = cfg["width"]
    if cfg["spec"] == "fixed_width":
        bins = "fixed_width"
        kw = {"bin_width": w}
    else:
        lo = float(np.floor(data.min() / w) * w) - w
        hi = float(np.ceil(data.max() / w) * w) + w
        edges = np.arange(lo, hi + w / 2, w)
        bins = edges
        kw = {}
    kind = f"{ndim}D/{cfg['spec']}"
    if ndim == 1:
        darr = da.from_array(data[:, 0], chunks=(tuple(sizes),), name=f"sim1d-{cfg['pool_seed']}")
        ok, got = attempt(pd.h1, darr, bins, dask_method=pool.get, **kw)
        ok_r, ref = attempt(physt.h1, data[:, 0], bins, adaptive=True, **kw)
    else:
        darr = da.from_array(data, chunks=(tuple(sizes), (ndim,)), name=f"simnd-{cfg['pool_seed']}")
        if cfg["spec"] == "edges":
            bins = [edges] * ndim
        ok, got = attempt(pd.histogramdd, darr, bins, dask_method=pool.get, **kw)
        ok_r, ref = attempt(physt.h, data, bins, adaptive=True, **kw)
    ctx.ev("dask", "facade", n, "ok" if ok else exc_tag(got))
    ctx.abstract("dask", ndim, cfg["spec"], len(sizes), cfg["workers"], pool.reordered > 0, ok)
    ctx.state("dask", ndim, len(sizes), cfg["workers"], pool.max_inflight)
    ctx.probe("dask_tasks_completed", pool.completed)
    if not ok_r:
        ctx.probe("dask_reference_failed:" + type(ref).__name__)
        return
    if not ok:
        ctx.violation("C05/dask-chunks", f"C05/dask-raised/{kind}/{exc_tag(got)}",
                      f"dask facade on {n} values in chunks {sizes} with {cfg['workers']} simulated workers raised "
                      f"{got!r} while the plain facade accepts the same data")
    for ax in range(ndim):
        if not np.array_equal(np.asarray(got.binnings[ax].bins), np.asarray(ref.binnings[ax].bins)):
            ctx.violation("C05/dask-chunks", f"C05/dask!=direct/{kind}/bins",
                          f"chunks {sizes}: bins on axis {ax} differ from the direct histogram: "
                          f"{np.asarray(got.binnings[ax].bins).tolist()} vs {np.asarray(ref.binnings[ax].bins).tolist()}"[:1500])
    if not arrays_equal(got.frequencies, ref.frequencies, exact=True):
        ctx.violation("C05/dask-chunks", f"C05/dask!=direct/{kind}/frequencies",
                      f"chunks {sizes}, {cfg['workers']} workers: frequencies {first_diff(got.frequencies, ref.frequencies)}")
    if not arrays_equal(got.errors2, ref.errors2, exact=True):
        ctx.violation("C05/dask-chunks", f"C05/dask!=direct/{kind}/errors2",
                      f"chunks {sizes}: errors2 {first_diff(got.errors2, ref.errors2)}")
    if not arrays_equal(missed_tuple(got), missed_tuple(ref), exact=True):
        ctx.violation("C05/dask-chunks", f"C05/dask!=direct/{kind}/missed",
                      f"chunks {sizes}: missed {missed_tuple(got)} vs {missed_tuple(ref)}")
    if ndim == 1:
        for f in STAT_FIELDS[:5]:
            a, b = float(getattr(got.statistics, f)), float(getattr(ref.statistics, f))
            tol = 1e-9 * (abs(a) + abs(b) + 1)
            if not (a == b or abs(a - b) <= tol or (a != a and b != b)):
                ctx.violation("C05/dask-chunks", f"C05/dask!=direct/{kind}/statistics.{f}",
                              f"chunks {sizes}: statistics.{f} {a!r} vs direct {b!r}")
