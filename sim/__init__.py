"""histsim - deterministic simulation with fault injection for physt.

Import order matters: `sim.paths` puts the physt source tree under test first
on sys.path (PHYST_SRC overrides /repo/src) before anything imports physt.
"""
from . import paths  # noqa: F401
