"""Locate the physt tree under test.

Checks always run the *current working tree* of /repo (pure Python: importing
from /repo/src is the rebuild).  PHYST_SRC overrides it for the mutant
self-test, which works on scratch copies outside /repo and /verif.
"""
import os
import sys

VERIF = os.path.dirname(os.path.dirname(os.path.abspath(__file__)))
PHYST_SRC = os.environ.get("PHYST_SRC", "/repo/src")

if PHYST_SRC in sys.path:
    sys.path.remove(PHYST_SRC)
sys.path.insert(0, PHYST_SRC)
if VERIF not in sys.path:
    sys.path.insert(1, VERIF)


def check_physt_location():
    """Fail loudly (harness error) if physt is imported from elsewhere."""
    import physt

    where = os.path.realpath(os.path.dirname(os.path.dirname(physt.__file__)))
    if where != os.path.realpath(PHYST_SRC):
        raise RuntimeError(f"physt imported from {where}, expected {PHYST_SRC}")
    return where
