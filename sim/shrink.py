"""Minimisation of a failing plan: ddmin over plan["ops"], then scenario-specific
simplifications.  A candidate is kept only if it still fails with the *same
signature*; bounded by executions and (coarsely) by wall time.
"""
from __future__ import annotations

import copy
import time

from .core import HarnessError, run_plan


class Budget:
    def __init__(self, max_exec=300, max_wall=20.0):
        self.max_exec = max_exec
        self.deadline = time.monotonic() + max_wall  # shrinking only; never part of a run
        self.used = 0

    def ok(self):
        return self.used < self.max_exec and time.monotonic() < self.deadline


def fails_same(module, plan, signature, budget) -> bool:
    budget.used += 1
    try:
        ctx = run_plan(module, plan)
    except HarnessError:
        return False
    except Exception:  # noqa: BLE001 - a mangled candidate may confuse the harness: reject it
        return False
    return any(v.signature == signature for v in ctx.violations)


def ddmin_ops(module, plan, signature, budget, key="ops"):
    ops = list(plan.get(key, []))
    if len(ops) < 2:
        return plan

    def with_ops(lst):
        p = copy.deepcopy(plan)
        p[key] = lst
        return p

    n = 2
    while len(ops) >= 2 and budget.ok():
        chunk = max(1, len(ops) // n)
        removed = False
        start = 0
        while start < len(ops) and budget.ok():
            cand = ops[:start] + ops[start + chunk:]
            if cand and fails_same(module, with_ops(cand), signature, budget):
                ops = cand
                n = max(n - 1, 2)
                removed = True
            else:
                start += chunk
        if not removed:
            if chunk == 1:
                break
            n = min(len(ops), n * 2)
    return with_ops(ops)


def minimise(module, plan, signature, max_exec=300, max_wall=20.0):
    budget = Budget(max_exec, max_wall)
    best = copy.deepcopy(plan)
    if not fails_same(module, best, signature, budget):
        raise HarnessError("plan does not reproduce its own violation before shrinking")
    for key in getattr(module, "SHRINK_KEYS", ["ops"]):
        best = ddmin_ops(module, best, signature, budget, key=key)
    simplify = getattr(module, "simplify", None)
    if simplify is not None:
        progress = True
        while progress and budget.ok():
            progress = False
            for cand in simplify(best):
                if not budget.ok():
                    break
                if fails_same(module, cand, signature, budget):
                    best = cand
                    progress = True
                    break
    best["shrink"] = {"executions": budget.used, "ops_before": len(plan.get("ops", [])),
                      "ops_after": len(best.get("ops", []))}
    return best


def compact_entries(plan, parallel_cfg_keys=()):
    """Drop plan["entries"] items that no op refers to (ops refer by key "i" or "idx") and renumber.

    `parallel_cfg_keys`: config keys holding lists parallel to the entries (e.g. per-entry weights)."""
    used = set()
    for op in plan.get("ops", []):
        if isinstance(op.get("i"), int):
            used.add(op["i"])
        for j in op.get("idx") or []:
            used.add(j)
    n = len(plan.get("entries", []))
    keep = [j for j in range(n) if j in used]
    if len(keep) == n:
        return None
    remap = {old: new for new, old in enumerate(keep)}
    p = copy.deepcopy(plan)
    p["entries"] = [plan["entries"][j] for j in keep]
    for k in parallel_cfg_keys:
        v = p["config"].get(k)
        if isinstance(v, list) and len(v) == n:
            p["config"][k] = [v[j] for j in keep]
    for op in p["ops"]:
        if isinstance(op.get("i"), int):
            op["i"] = remap.get(op["i"], 10 ** 9)
        if op.get("idx") is not None:
            op["idx"] = [remap[j] for j in op["idx"] if j in remap]
    return p
