#!/venv/bin/python
"""Determinism self-test (not part of quick/thorough): for every claimed property and partition, the digests of
N runs are computed in three fresh interpreters (PYTHONHASHSEED 0, 777 and random) - each of which also executes
every run twice in-process (first-vs-later execution) - and compared.  usage: determinism.py [N] [VERIF_SEED]"""
import json, os, subprocess, sys
from concurrent.futures import ThreadPoolExecutor
VERIF = os.path.dirname(os.path.dirname(os.path.abspath(__file__)))
sys.path.insert(0, VERIF)
N = int(sys.argv[1]) if len(sys.argv) > 1 else 300
SEED = int(sys.argv[2]) if len(sys.argv) > 2 else 0
claims = [c["id"] for c in json.load(open(os.path.join(VERIF, "claims.json")))]
PARTS = {"C19": [{"PHYST_FREE_ARITHMETICS": None}, {"PHYST_FREE_ARITHMETICS": "0"}, {"PHYST_FREE_ARITHMETICS": "1"}]}

def digests(prop, part, env_extra, hashseed):
    e = dict(os.environ); e["PYTHONHASHSEED"] = hashseed; e.pop("PHYST_FREE_ARITHMETICS", None)
    for k, v in env_extra.items():
        if v is not None: e[k] = v
    p = subprocess.run(["/venv/bin/python", os.path.join(VERIF, "run.py"), "--digests", "--property", prop, "--seed", str(SEED),
                        "--part", str(part), "--count", str(N)], env=e, capture_output=True, text=True, timeout=3600)
    if p.returncode != 0:
        return {"error": p.stderr[-500:]}
    return json.loads(p.stdout.strip().splitlines()[-1])

jobs = []
for prop in claims:
    for part, env in enumerate(PARTS.get(prop, [{}])):
        for hs in ("0", "777", "random"):
            jobs.append((prop, part, env, hs))
with ThreadPoolExecutor(max_workers=16) as ex:
    results = list(ex.map(lambda j: digests(*j), jobs))
bad = 0
table = {}
for (prop, part, env, hs), r in zip(jobs, results):
    table.setdefault((prop, part), {})[hs] = r
for (prop, part), by in sorted(table.items()):
    ref = by["0"]
    status = "ok"
    for hs, r in by.items():
        if "error" in r:
            status = f"ERROR {r['error'][-200:]}"; bad += 1; break
        diff = [k for k in ref if ref[k] != r.get(k)]
        unstable = [k for k, v in r.items() if str(v).startswith("UNSTABLE")]
        if diff or unstable:
            status = f"MISMATCH hashseed={hs} runs={diff[:5]} unstable={unstable[:5]}"; bad += 1; break
    print(f"{prop} part={part}: {N} runs x 3 interpreters x 2 executions: {status}")
sys.exit(1 if bad else 0)
