"""Run one seed of a check and print its plan, events and violations. usage: one.py C03 66 [part]"""
import sys, json
sys.path.insert(0, "/verif")
import sim, importlib
from sim.core import make_rng, run_plan, run_seed, dump_plan
prop = sys.argv[1]; i = int(sys.argv[2]); part = int(sys.argv[3]) if len(sys.argv) > 3 else 0
m = importlib.import_module("checks." + prop.lower())
s = run_seed(0, i); plan = m.generate(make_rng(s), s, part)
print(dump_plan(plan)[:6000])
ctx = run_plan(m, plan)
for e in ctx.events[-40:]: print(e)
for v in ctx.violations: print("VIOLATION", v.signature, "\n   ", v.message)
