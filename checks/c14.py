"""C14 - statistics are those of the raw data entered, not of the bins.

1-D accumulators fed in-range values only.  The model of a node is the bag of
(value, weight) pairs delivered to it (plus a positive scale factor); after
every event the node's statistics are compared with the moments of that bag:
over construction, fill, fill_n in any chunking/container (with NaN rows that
must be skipped), addition of partial histograms, sum(), copy and positive
rescaling.  Operations that cannot maintain statistics (array arithmetic under
free arithmetics, subtraction, construction from bare frequencies) must leave
them invalid (NaN), never wrong numbers.
"""
from __future__ import annotations

import math

import numpy as np

import sim  # noqa: F401
from sim import build
from sim.core import attempt, bulk_tier, exc_tag
from sim.oracle import chaos

PROPERTY = "C14"
LEVEL = "exploration"
RUNS = {"quick": 100000, "thorough": 1500000}
WALL = {"quick": 240, "thorough": 1500}
PARTITIONS = [{"name": "default", "env": {}}]
FAULT_KINDS = build.LAYOUT_FAULTS + ["normalised_through_a_collection", "block_input:C", "block_input:F", "keep_missed_off", "reorder", "batch_split", "empty_batch", "nan_entry", "merge_partials", "adaptive_growth_before_sum", "rescale", "invalidate",
               "copy", "duplicate_values"]
RULE = ("one run = 1-4 one-dimensional accumulators over consecutive bins fed in-range values (<= 30 entries, "
        "weights none/int/dyadic/float) by construction, fill and fill_n in seeded chunkings, combined with +, += and "
        "sum(), copied, rescaled by positive factors, and finally subjected to statistics-invalidating operations; in "
        "3 of 10 runs also 2-3 partial histograms over adaptive fixed-width axes that grow on their own before and "
        "after they are summed; "
        "distinct = distinct sequence of (op kind, container, outcome); non-trivial = >= 2 delivery events in "
        "different batching or a merge/rescale happened")
COMPONENTS = {
    "real": ["physt.statistics.Statistics (mean/variance/std/__add__/__mul__)", "statistics block of "
             "calculate_1d_frequencies", "Histogram1D.fill / fill_n / copy", "HistogramBase in-place operators' "
             "statistics handling", "physt.config context manager", "numpy"],
    "simulated": ["the data source, its delivery schedule and the merge/rescale history"],
}
ASSUMPTIONS = [
    "values lie within the bins (precondition of the statement); weights are non-negative",
    "sums compared with 1e-9 relative to the sum of absolute terms (any summation order of <= 10^5 float64 terms "
    "differs by < 2e-11 of it); min/max exactly",
]


def generate(rng, seed, part):
    bulk = bulk_tier(rng)
    axis = build.gen_axis(rng, max_bins=6 if not bulk else rng.choice([6, 80, 200]), allow_gaps=False,
                          families=["static", "numpy", "fixed", "exp"])
    pool = build.axis_pool(build.spec_bins(axis))
    # "const": explicit weights that are all the same (not 1)
    wkind = rng.choice(build.WEIGHT_KINDS + ["const"])
    const_w = rng.choice([2.5, 3, 0.5, 7.0])
    n = rng.choice([0, 1, 2, 4, 8, 16, 30])
    if bulk:
        n = rng.choice([2500, 6000])  # delivered in batches of thousands
    entries = [[build.draw_value(rng, pool, inside_only=True),
                const_w if wkind == "const" else build.draw_weight(rng, wkind)] for _ in range(n)]
    if n > 3 and rng.random() < 0.3:
        for _ in range(3):
            entries[rng.randrange(n)] = list(entries[rng.randrange(n)])
    cfg = {"axis": axis, "weights": wkind, "dtype": build.pick_dtype(rng, "float" if wkind == "const" else wkind),
           "vtype": rng.choice(["f64", "f64", "f32", "f16"]),
           # tracking of missed values on or off: all values lie in the bins, the statistics must not care
           "keep_missed": rng.random() < 0.7}
    if cfg["vtype"] != "f64":
        # values representable in the narrow float type: they may be handed over as float32/float16 arrays
        conv = np.float32 if cfg["vtype"] == "f32" else np.float16
        lo, hi = float(build.spec_bins(axis)[0, 0]), float(build.spec_bins(axis)[-1, 1])
        for e in entries:
            with np.errstate(over="ignore"):
                q = float(conv(e[0]))
            if lo <= q < hi and np.isfinite(q):
                e[0] = q
            else:
                cfg["vtype"] = "f64"  # (rounding would leave the bins: keep this run in double precision)
                break
    if cfg["dtype"] == "float16":
        cfg["dtype"] = "float32"
    ops = []
    nodes = 0
    remaining = list(range(n))
    rng.shuffle(remaining) if rng.random() < 0.5 else None
    conts = ["list", "ndarray", "tuple", "iter"]
    # creation of 1-3 nodes, each receiving a share of the stream
    k = rng.randint(1, 3)
    shares = [[] for _ in range(k)]
    for i in remaining:
        shares[rng.randrange(k)].append(i)
    for share in shares:
        how = rng.choice(["construct", "empty", "empty"])
        if how == "construct":
            cut = rng.randint(0, len(share))
            ops.append({"op": "new", "out": nodes, "idx": share[:cut], "cont": rng.choice(["list", "ndarray"])})
            rest = share[cut:]
        else:
            ops.append({"op": "new", "out": nodes, "idx": None})
            rest = share
        j = 0
        while j < len(rest):
            if rng.random() < (0.5 if not bulk else 0.01):
                ops.append({"op": "fill", "n": nodes, "i": rest[j]})
                j += 1
            else:
                m = rng.randint(1, min(8, len(rest) - j))
                if bulk:
                    m = min(len(rest) - j, rng.choice([50, 2048, 3000, len(rest)]))
                op = {"op": "fill_n", "n": nodes, "idx": rest[j:j + m], "cont": rng.choice(conts),
                      "mem": rng.choice(build.MEM_MODES),
                      # a 1-D histogram takes input of any shape: a 2-D block (in either memory order) with a
                      # same-shaped block of weights, nothing to drop
                      "block": rng.choice([None, None, "C", "F", "F"])}
                if rng.random() < 0.2:
                    op["nan_at"] = rng.randrange(m + 1)
                ops.append(op)
                j += m
            if rng.random() < 0.08:
                ops.append({"op": "fill_n", "n": nodes, "idx": [], "cont": rng.choice(conts)})
        nodes += 1
    for _ in range(rng.randint(0, 6)):
        r = rng.random()
        a = rng.randrange(nodes)
        b = rng.randrange(nodes)
        if r < 0.25:
            ops.append({"op": "add", "a": a, "b": b, "out": nodes})
            nodes += 1
        elif r < 0.35:
            ops.append({"op": "iadd", "a": a, "b": b})
        elif r < 0.45:
            items = [rng.randrange(nodes) for _ in range(rng.randint(1, 4))]
            ops.append({"op": "sum", "items": items, "out": nodes})
            nodes += 1
        elif r < 0.60:
            ops.append({"op": "copy", "a": a, "out": nodes, "empty": rng.random() < 0.4})
            nodes += 1
            if ops[-1]["empty"] and n:
                # the empty clone is a fresh accumulator: it receives (a few of) the entries again
                for _ in range(rng.randint(1, 3)):
                    if rng.random() < 0.5:
                        ops.append({"op": "fill", "n": nodes - 1, "i": rng.randrange(n)})
                    else:
                        ops.append({"op": "fill_n", "n": nodes - 1, "cont": rng.choice(conts),
                                    "idx": [rng.randrange(n) for _ in range(rng.randint(1, 4))]})
        elif r < 0.85:
            ops.append({"op": "scale", "a": a, "how": rng.choice(["mul", "div", "imul", "idiv", "normalize", "rmul",
                                                                  "coll_normalize_all", "coll_normalize_all_inplace"]),
                        "c": rng.choice([2, 3, 0.5, 0.25, 2.5, 0.1, 7]), "out": nodes})
            nodes += 1
        else:
            ops.append({"op": "fill", "n": a, "i": rng.randrange(n) if n else 0})
    for _ in range(rng.randint(0, 2)):
        ops.append({"op": "invalidate", "a": rng.randrange(nodes), "out": nodes,
                    "how": rng.choice(["sub", "isub", "add_array", "mul_array", "bare", "div_array", "sub_free", "isub_free",
                                       "sub_array_free"])})
        nodes += 1
        # an invalid histogram combined with valid ones / filled further must stay invalid (never wrong numbers)
        for _ in range(rng.randint(0, 2)):
            ops.append({"op": "taint", "a": rng.randrange(nodes), "b": nodes - 1,
                        "how": rng.choice(["add", "radd", "iadd", "sum", "fill", "fill_n", "copy", "scale"])})
    if rng.random() < 0.3:
        # partial histograms over *adaptive* fixed-width axes: each grows on its own (in either direction, more
        # than once) before / after they are summed; every value lies within the bins of the histogram it entered
        width = rng.choice([1.0, 0.5, 2.0, 2.5])
        wk = rng.choice(["none", "none", "float", "int"])

        def val():
            return rng.choice([rng.randint(-40, 40) * 0.25, rng.randint(-8, 8) * 1.0, rng.uniform(-12, 12)])

        def ent():
            return [val(), None if wk == "none" else (rng.choice([0.5, 2.0, 1.0, 0.25]) if wk == "float"
                                                      else float(rng.choice([1, 2, 3])))]
        parts = [{"init": [val() for _ in range(rng.randint(1, 3))],
                  "fills": [ent() for _ in range(rng.randint(0, 4))], "batch": rng.random() < 0.4}
                 for _ in range(rng.randint(2, 3))]
        ops.append({"op": "adaptive_partials", "width": width, "parts": parts,
                    "reduce": rng.choice(["add", "add", "iadd", "sum", "radd"]),
                    "order": rng.sample(range(len(parts)), len(parts)),
                    "then": [ent() for _ in range(rng.randint(0, 3))]})
    return {"property": PROPERTY, "scenario": "moments", "config": cfg, "entries": entries, "ops": ops}


class Node:
    def __init__(self, h, bag, factor=1.0):
        self.h = h
        self.bag = list(bag)  # (value, weight) pairs
        self.factor = factor
        self.valid = True


def moments(bag, factor):
    W = S1 = S2 = 0.0
    scale = 0.0
    lo, hi = math.inf, -math.inf
    for v, w in bag:
        W += w
        S1 += w * v
        S2 += w * v * v
        scale += abs(w) * (1 + abs(v) + v * v)
        lo = min(lo, v)
        hi = max(hi, v)
    return W * factor, S1 * factor, S2 * factor, lo, hi, scale * factor + 1e-300


def check(ctx, nd, what):
    h = nd.h
    try:
        st = h.statistics
    except AttributeError as exc:
        ctx.violation("C14/statistics-present", f"C14/no-statistics/{what}", f"after {what}: {exc!r}")
    W, S1, S2, lo, hi, scale = moments(nd.bag, nd.factor)
    tol = 1e-9 * scale
    got = {"weight": float(st.weight), "sum": float(st.sum), "sum2": float(st.sum2),
           "min": float(st.min), "max": float(st.max)}
    want = {"weight": W, "sum": S1, "sum2": S2, "min": lo, "max": hi}
    for name in ("weight", "sum", "sum2"):
        if chaos() or not abs(got[name] - want[name]) <= tol:
            ctx.violation("C14/moments", f"C14/statistics.{name}/{what}",
                          f"after {what}: statistics.{name} = {got[name]!r} but the {len(nd.bag)} values entered "
                          f"(scale factor {nd.factor!r}) give {want[name]!r}")
    if nd.bag:
        for name in ("min", "max"):
            if got[name] != want[name]:
                ctx.violation("C14/moments", f"C14/statistics.{name}/{what}",
                              f"after {what}: statistics.{name} = {got[name]!r}, data {name} is {want[name]!r}")
    with np.errstate(all="ignore"):
        mean, var, std = float(st.mean()), float(st.variance()), float(st.std())
    if W > 0:
        m = S1 / W
        v = S2 / W - m * m
        mtol = 1e-9 * (scale / W)
        if chaos() or not abs(mean - m) <= mtol:
            ctx.violation("C14/mean", f"C14/mean/{what}", f"after {what}: mean() = {mean!r}, data mean is {m!r}")
        if not abs(var - v) <= 1e-9 * (scale / W) * (1 + abs(m)):
            ctx.violation("C14/variance", f"C14/variance/{what}",
                          f"after {what}: variance() = {var!r}, weighted population variance of the data is {v!r}")
        vv = max(v, 0.0)
        if var >= 0 and not abs(std - math.sqrt(max(var, 0.0))) <= 1e-12 * (1 + math.sqrt(vv)):
            ctx.violation("C14/variance", f"C14/std/{what}", f"after {what}: std() = {std!r} != sqrt(variance()={var!r})")
    elif not nd.bag:
        if got["weight"] != 0 or not math.isnan(mean):
            ctx.violation("C14/empty", f"C14/empty-histogram/{what}",
                          f"after {what}: empty histogram reports weight {got['weight']!r} and mean {mean!r} "
                          f"(expected 0 and NaN)")


def execute(plan, ctx):
    from physt import h1 as f_h1
    from physt.config import config
    from physt.histogram1d import Histogram1D

    cfg = plan["config"]
    entries = plan["entries"]
    wkind = cfg["weights"]
    nodes = {}
    ctx.state(cfg["axis"]["kind"], wkind, cfg["dtype"], cfg.get("keep_missed", True))
    if not cfg.get("keep_missed", True):
        ctx.fault("keep_missed_off")
    vals_seen = set()

    def pair(i):
        v, w = entries[i]
        return (v, 1.0 if w is None else float(w))

    def warr(ws):
        return np.asarray(ws, dtype=np.int64 if wkind == "int" else np.float64)

    deliveries = 0
    for step, op in enumerate(plan["ops"]):
        ctx.step = step
        ctx.advance()
        o = op["op"]
        if o == "new":
            dtype = np.dtype(cfg["dtype"]) if cfg["dtype"] else None
            if op["idx"] is None:
                kw = {"dtype": dtype} if dtype is not None else {}
                kw["keep_missed"] = cfg.get("keep_missed", True)
                ok, h = attempt(Histogram1D, build.make_binning(cfg["axis"]), **kw)
                bag = []
            else:
                idx = [i for i in op["idx"] if i < len(entries)]
                data = build.as_container([entries[i][0] for i in idx], op.get("cont", "list"))
                if cfg.get("vtype", "f64") != "f64" and isinstance(data, np.ndarray):
                    data = data.astype(np.float32 if cfg["vtype"] == "f32" else np.float16)
                    ctx.probe("narrow_float_values")
                kw = {"dtype": dtype} if dtype is not None else {}
                kw["keep_missed"] = cfg.get("keep_missed", True)
                if wkind != "none":
                    kw["weights"] = warr([entries[i][1] for i in idx])
                ok, h = attempt(f_h1, data, build.make_binning(cfg["axis"]), **kw)
                bag = [pair(i) for i in idx]
            ctx.ev("src", "new", op["out"], "ok" if ok else exc_tag(h))
            ctx.abstract("new", op["idx"] is not None, ok)
            if not ok:
                ctx.probe("setup_failed:" + type(h).__name__)
                return
            nodes[op["out"]] = Node(h, bag)
            check(ctx, nodes[op["out"]], "construct" if op["idx"] is not None else "empty-constructor")
            if op["idx"] is not None and wkind == "none" and bag:
                med = float(np.median([v for v, _ in bag]))
                if float(h.statistics.median) != med:
                    ctx.violation("C14/median", "C14/median/construct",
                                  f"median after unweighted construction is {h.statistics.median!r}, data median {med!r}")
            deliveries += 1
            continue
        if o == "fill":
            nd = nodes.get(op["n"])
            if nd is None or op["i"] >= len(entries) or not nd.valid:
                continue
            v, w = entries[op["i"]]
            if cfg.get("vtype", "f64") == "f32" and op["i"] % 2:
                v = np.float32(v)
            ok, res = attempt(nd.h.fill, v) if w is None else attempt(nd.h.fill, v, w)
            ctx.ev(op["n"], "fill", op["i"], "ok" if ok else exc_tag(res))
            ctx.abstract("fill", ok)
            if not ok:
                ctx.probe("fill_failed:" + type(res).__name__)
                return
            p = pair(op["i"])
            if p[0] in vals_seen:
                ctx.fault("duplicate_values")
            vals_seen.add(p[0])
            # a fill after rescaling enters the weight unscaled
            nd.bag.append((p[0], p[1] / nd.factor))
            deliveries += 1
            check(ctx, nd, "fill")
        elif o == "fill_n":
            nd = nodes.get(op["n"])
            if nd is None or not nd.valid:
                continue
            idx = [i for i in op["idx"] if i < len(entries)]
            vals = [entries[i][0] for i in idx]
            ws = [entries[i][1] for i in idx]
            if idx and op.get("nan_at") is not None:
                k = op["nan_at"] % (len(idx) + 1)
                vals.insert(k, math.nan)
                ws.insert(k, ws[0])
                ctx.fault("nan_entry")
            kw = {}
            if wkind != "none":
                kw["weights"] = warr(ws) if op.get("cont") == "ndarray" or not ws else list(ws)
            batch = build.as_container(vals, op.get("cont", "list"))
            if cfg.get("vtype", "f64") != "f64" and isinstance(batch, np.ndarray):
                batch = batch.astype(np.float32 if cfg["vtype"] == "f32" else np.float16)
                ctx.probe("narrow_float_values")
            held = []
            if op.get("block") and op.get("nan_at") is None and len(vals) >= 4 and len(vals) % 2 == 0 \
                    and cfg.get("vtype", "f64") == "f64":
                blk = np.asarray(vals, dtype=float).reshape(2, -1)
                batch = np.asfortranarray(blk) if op["block"] == "F" else blk
                if "weights" in kw:
                    kw["weights"] = warr(ws).reshape(2, -1)
                kw["dropna"] = False
                ctx.fault("block_input:" + op["block"])
            elif cfg.get("vtype", "f64") == "f64":
                (batch, w_), held = build.hand_over(ctx, op.get("mem"), batch, kw.get("weights"))
                if "weights" in kw:
                    kw["weights"] = w_
            ok, res = attempt(nd.h.fill_n, batch, **kw)
            if ok and held and op.get("mem") == "scribble":
                st0 = repr(nd.h.statistics)
                from sim.oracle import snap as _snap, snap_diff as _snap_diff
                build.scribble_check(ctx, nd.h, held, "scribble", _snap, _snap_diff, "C14", "fill_n")
                if repr(nd.h.statistics) != st0:
                    ctx.violation("C14/callers-array-untouched", "C14/keeps-callers-buffer/statistics",
                                  f"the caller overwrote the arrays it had passed to fill_n and the statistics changed "
                                  f"from {st0} to {nd.h.statistics!r}")
            ctx.ev(op["n"], f"fill_n:{op.get('cont')}", len(idx), "ok" if ok else exc_tag(res))
            ctx.abstract("fill_n", op.get("cont"), min(len(idx), 3), ok)
            if not ok:
                ctx.probe("fill_n_failed:" + type(res).__name__)
                return
            if not idx:
                ctx.fault("empty_batch")
            elif len(idx) < len(entries):
                ctx.fault("batch_split")
            if idx != sorted(idx):
                ctx.fault("reorder")
            nd.bag += [(pair(i)[0], pair(i)[1] / nd.factor) for i in idx]
            deliveries += 1
            check(ctx, nd, "fill_n")
        elif o == "adaptive_partials":
            parts = []
            for pi, part in enumerate(op["parts"]):
                ok, h = attempt(f_h1, list(part["init"]), "fixed_width", bin_width=op["width"], adaptive=True)
                if not ok:
                    ctx.probe("setup_failed:" + type(h).__name__)
                    return
                nd = Node(h, [(v, 1.0) for v in part["init"]])
                nbins = h.bin_count
                fills = part["fills"]
                if part.get("batch") and fills:
                    kw = {} if fills[0][1] is None else {"weights": np.asarray([w for _, w in fills], dtype=float)}
                    ok, res = attempt(h.fill_n, [v for v, _ in fills], **kw)
                    if not ok:
                        ctx.probe("fill_failed:" + type(res).__name__)
                        return
                else:
                    for v, w in fills:
                        ok, res = attempt(h.fill, v) if w is None else attempt(h.fill, v, w)
                        if not ok:
                            ctx.probe("fill_failed:" + type(res).__name__)
                            return
                nd.bag += [(v, 1.0 if w is None else float(w)) for v, w in fills]
                if h.bin_count != nbins:
                    ctx.fault("adaptive_growth_before_sum")
                ctx.ev(f"part{pi}", "adaptive-part", len(nd.bag), "ok")
                check(ctx, nd, "adaptive-partial")
                parts.append(nd)
            parts = [parts[i] for i in op["order"] if i < len(parts)]
            how = op["reduce"]

            def red():
                if how == "sum":
                    return sum(x.h for x in parts)
                if how == "radd":
                    return 0 + parts[0].h + parts[1].h if len(parts) == 2 else sum((x.h for x in parts[1:]), parts[0].h)
                acc = parts[0].h.copy() if how == "iadd" else parts[0].h
                for x in parts[1:]:
                    if how == "iadd":
                        acc += x.h
                    else:
                        acc = acc + x.h
                return acc
            same = all(np.array_equal(x.h.bins, parts[0].h.bins) for x in parts)
            ok, res = attempt(red)
            ctx.ev("red", "adaptive-" + how, len(parts), "ok" if ok else exc_tag(res))
            ctx.abstract("adaptive_partials", how, same, ok)
            if not ok:
                ctx.probe("add_failed:" + type(res).__name__)
                return
            ctx.fault("merge_partials")
            if not same:
                ctx.probe("adaptive_sum_of_differently_grown_partials")
            tot = Node(res, [e for x in parts for e in x.bag])
            check(ctx, tot, "adaptive-" + how)
            for x in parts:  # the operands keep their own statistics
                check(ctx, x, "adaptive-operand-after-" + how)
            for v, w in op["then"]:
                ok, r2 = attempt(res.fill, v) if w is None else attempt(res.fill, v, w)
                if not ok:
                    ctx.probe("fill_failed:" + type(r2).__name__)
                    return
                tot.bag.append((v, 1.0 if w is None else float(w)))
            if op["then"]:
                check(ctx, tot, "adaptive-sum-then-fill")
        elif o in ("add", "iadd"):
            a, b = nodes.get(op["a"]), nodes.get(op["b"])
            if a is None or b is None or not (a.valid and b.valid):
                continue
            if o == "add":
                ok, res = attempt(lambda: a.h + b.h)
            else:
                def f():
                    x = a.h
                    x += b.h
                    return x
                ok, res = attempt(f)
            ctx.ev("red", o, (op["a"], op["b"]), "ok" if ok else exc_tag(res))
            ctx.abstract(o, ok)
            if not ok:
                ctx.probe("add_failed:" + type(res).__name__)
                return
            ctx.fault("merge_partials")
            # bring both bags to factor 1 representation
            bag = [(v, w * a.factor) for v, w in a.bag] + [(v, w * b.factor) for v, w in b.bag]
            if o == "add":
                nodes[op["out"]] = Node(res, bag)
                check(ctx, nodes[op["out"]], "add")
            else:
                a.bag, a.factor = bag, 1.0
                check(ctx, a, "iadd")
        elif o == "sum":
            items = [nodes[i] for i in op["items"] if i in nodes and nodes[i].valid]
            if not items:
                continue
            ok, res = attempt(lambda: sum(x.h for x in items))
            ctx.ev("red", "sum", tuple(op["items"]), "ok" if ok else exc_tag(res))
            ctx.abstract("sum", len(items), ok)
            if not ok:
                ctx.probe("add_failed:" + type(res).__name__)
                return
            ctx.fault("merge_partials")
            bag = [(v, w * x.factor) for x in items for v, w in x.bag]
            if res is items[0].h:
                continue  # sum([a]) returning a itself: judged by C12
            nodes[op["out"]] = Node(res, bag)
            check(ctx, nodes[op["out"]], "sum")
        elif o == "copy":
            a = nodes.get(op["a"])
            if a is None or not a.valid:
                continue
            empty = bool(op.get("empty"))
            ok, res = attempt(a.h.copy) if not empty else attempt(a.h.copy, include_frequencies=False)
            ctx.ev("red", "copy" if not empty else "copy_empty", op["a"], "ok" if ok else exc_tag(res))
            ctx.abstract("copy", empty, ok)
            if not ok:
                ctx.probe("copy_failed:" + type(res).__name__)
                return
            ctx.fault("copy")
            if empty:
                # an empty clone knows nothing about the data of its source: its statistics are those of no data
                nodes[op["out"]] = Node(res, [], 1.0)
                check(ctx, nodes[op["out"]], "copy_empty")
                st = res.statistics
                ref = Histogram1D(build.make_binning(cfg["axis"])).statistics  # what "no data" looks like

                def same(x, y):
                    x, y = float(x), float(y)
                    return x == y or (math.isnan(x) and math.isnan(y))

                if not (same(st.min, ref.min) and same(st.max, ref.max) and same(st.median, ref.median)):
                    ctx.violation("C14/empty", "C14/empty-clone-remembers/copy_empty",
                                  f"copy(include_frequencies=False) of a histogram with data reports min={st.min!r} "
                                  f"max={st.max!r} median={st.median!r}; a histogram without data reports "
                                  f"{ref.min!r} / {ref.max!r} / {ref.median!r}")
                continue
            nodes[op["out"]] = Node(res, a.bag, a.factor)
            check(ctx, nodes[op["out"]], "copy")
        elif o == "scale":
            a = nodes.get(op["a"])
            if a is None or not a.valid:
                continue
            c = op["c"]
            how = op["how"]
            total = a.h.total
            if how in ("normalize", "coll_normalize_all", "coll_normalize_all_inplace") and not total > 0:
                continue
            if how.startswith("coll_"):
                # the same normalisation asked of a collection that holds the histogram (and a sibling)
                from physt.histogram_collection import HistogramCollection

                inplace = how.endswith("inplace")
                sib = a.h.copy()
                target = a.h if inplace else a.h.copy()
                ok, res = attempt(lambda: HistogramCollection(target, sib).normalize_all(inplace=inplace))
                if ok:
                    res = res.histograms[0]
                k = 1.0 / total
                how = "imul" if inplace else "coll_normalize_all"
                ctx.fault("normalised_through_a_collection")
            elif how == "mul":
                ok, res = attempt(lambda: a.h * c)
                k = c
            elif how == "rmul":
                ok, res = attempt(lambda: c * a.h)
                k = c
            elif how == "div":
                ok, res = attempt(lambda: a.h / c)
                k = 1.0 / c
            elif how == "imul":
                ok, res = attempt(lambda: a.h.__imul__(c))
                k = c
            elif how == "idiv":
                ok, res = attempt(lambda: a.h.__itruediv__(c))
                k = 1.0 / c
            else:
                ok, res = attempt(a.h.normalize)
                k = 1.0 / total
            ctx.ev("red", f"scale:{how}", op["a"], "ok" if ok else exc_tag(res))
            ctx.abstract("scale", how, ok)
            if not ok:
                ctx.probe("scale_failed:" + type(res).__name__)
                return
            ctx.fault("rescale")
            if how in ("imul", "idiv"):
                a.factor *= k
                check(ctx, a, f"scale-{how}")
            else:
                nodes[op["out"]] = Node(res, a.bag, a.factor * k)
                check(ctx, nodes[op["out"]], f"scale-{how}")
        elif o == "invalidate":
            a = nodes.get(op["a"])
            if a is None:
                continue
            how = op["how"]
            arr = np.ones(a.h.shape)
            if how == "sub":
                ok, res = attempt(lambda: a.h - a.h * 0.5)
            elif how == "isub":
                def g():
                    c = a.h.copy()
                    c -= a.h * 0.5
                    return c
                ok, res = attempt(g)
            elif how in ("sub_free", "isub_free", "sub_array_free"):
                def f3():
                    with config.enable_free_arithmetics():
                        if how == "sub_free":
                            return a.h - a.h * 0.5
                        if how == "sub_array_free":
                            return a.h - arr * 0.0
                        c = a.h.copy()
                        c -= a.h * 0.5
                        return c
                ok, res = attempt(f3)
            elif how in ("add_array", "mul_array", "div_array"):
                def f2():
                    with config.enable_free_arithmetics():
                        if how == "add_array":
                            return a.h + arr
                        if how == "mul_array":
                            return a.h * (arr * 2)
                        return a.h / (arr * 2)
                ok, res = attempt(f2)
            else:
                ok, res = attempt(lambda: Histogram1D(build.make_binning(cfg["axis"]),
                                                      frequencies=np.asarray(a.h.frequencies).copy()))
            ctx.ev("red", f"invalidate:{how}", op["a"], "ok" if ok else exc_tag(res))
            ctx.abstract("invalidate", how, ok)
            if not ok:
                ctx.probe("invalidate_failed:" + type(res).__name__)
                continue
            ctx.fault("invalidate")
            with np.errstate(all="ignore"):
                mean = float(res.statistics.mean())
                var = float(res.statistics.variance())
            if not math.isnan(mean) or not math.isnan(var):
                ctx.violation("C14/invalid-after-unsupported-op", f"C14/not-invalid/{how}",
                              f"after {how} (which cannot maintain statistics) mean() = {mean!r}, variance() = {var!r}; "
                              f"expected NaN")
            inv = Node(res, [], 1.0)
            inv.valid = False
            nodes[op["out"]] = inv
        elif o == "taint":
            a, b = nodes.get(op["a"]), nodes.get(op["b"])
            if a is None or b is None or b.valid:
                continue
            how = op["how"]
            if a.h.shape != b.h.shape:
                continue
            v0 = entries[0][0] if entries else float(np.asarray(b.h.bins)[0, 0])
            if how == "add":
                ok, res = attempt(lambda: a.h + b.h)
            elif how == "radd":
                ok, res = attempt(lambda: b.h + a.h)
            elif how == "iadd":
                def t1():
                    c = a.h.copy()
                    c += b.h
                    return c
                ok, res = attempt(t1)
            elif how == "sum":
                ok, res = attempt(lambda: sum([a.h, b.h, a.h]))
            elif how == "fill":
                def t2():
                    c = b.h.copy()
                    c.fill(v0)
                    return c
                ok, res = attempt(t2)
            elif how == "fill_n":
                def t3():
                    c = b.h.copy()
                    c.fill_n([v0, v0])
                    return c
                ok, res = attempt(t3)
            elif how == "copy":
                ok, res = attempt(b.h.copy)
            else:
                ok, res = attempt(lambda: b.h * 2.0)
            ctx.ev("red", f"taint:{how}", (op["a"], op["b"]), "ok" if ok else exc_tag(res))
            ctx.abstract("taint", how, ok)
            if not ok:
                ctx.probe("taint_failed:" + type(res).__name__)
                continue
            ctx.fault("invalidate")
            with np.errstate(all="ignore"):
                mean = float(res.statistics.mean())
                var = float(res.statistics.variance())
            if chaos() or not math.isnan(mean) or not math.isnan(var):
                ctx.violation("C14/invalid-stays-invalid", f"C14/invalid-became-numbers/{how}",
                              f"{how} involving a histogram with invalid statistics reports mean() = {mean!r}, "
                              f"variance() = {var!r}: numbers that ignore part of the contents instead of NaN")
    if deliveries >= 2:
        ctx.nontrivial += 1
