"""C05 - adding histograms equals histogramming the combined data.

Map/reduce pipeline: a seeded stream is partitioned over P partial
accumulators (fixed equal bins, or adaptive fixed-width bins on a common grid
with whatever ranges their data gives them; differing dtypes; built by the
facade or by fill_n), a reducer combines them in a seeded tree / operand order
with +, += on a copy, in-place +=, sum(), HistogramCollection.sum(), 0 + h.
Every result is compared with the direct replica (one construction from the
union bag), operands are snapshotted around every operation, a+b is compared
with b+a, all nodes holding the same bag must agree (associativity), and
refusal probes must raise and change nothing.  A second scenario drives the
dask facade through a simulated worker pool (sim/daskexec.py).
"""
from __future__ import annotations

import math

import numpy as np

import sim  # noqa: F401
from sim import build
from sim.core import attempt, bulk_tier, deep_tier, exc_tag
from sim.oracle import STAT_FIELDS, arrays_equal, first_diff, missed_tuple, num_equal, snap, snap_diff

PROPERTY = "C05"
LEVEL = "exploration"
RUNS = {"quick": 60000, "thorough": 1000000}
WALL = {"quick": 240, "thorough": 1500}
PARTITIONS = [{"name": "default", "env": {}}]
FAULT_KINDS = ["shared_binning_object", "accumulate_into_result", "operand_swap", "tree_shape", "empty_partial", "dtype_mix", "adaptive_union", "refusal_probe",
               "self_add", "member_filled_between_sums", "dask_task_reorder", "dask_duplicate_exec", "dask_workers>1", "dask_chunking"]
RULE = ("one run = a seeded stream (<= 30 entries) partitioned over 1-5 partial histograms (fixed equal bins or "
        "adaptive fixed-width on a common grid; mixed dtypes; facade or fill_n) reduced by a seeded sequence of "
        "+, +=, sum(), HistogramCollection.sum(), 0+h, commutation checks and refusal probes; or one dask facade "
        "call on a seeded chunking executed by a simulated worker pool (seeded completion order, 1-4 workers, "
        "duplicate execution); distinct = distinct sequence of (op kind, operand classes, outcome); non-trivial = "
        ">= 2 reduction steps or an adaptive union, a refusal probe or a pool reordering happened")
COMPONENTS = {
    "real": ["HistogramBase.__add__/__radd__/__iadd__, has_same_bins, _merge_meta_data, copy",
             "BinningBase.adapt, FixedWidthBinning._adapt/_force_new_min_max, _change_binning/_reshape_data",
             "Statistics.__add__", "HistogramCollection.sum", "physt.compat.dask graph construction",
             "dask.local.get_async scheduling logic, dask.order, dask.array chunking", "numpy"],
    "simulated": ["partitioning of the data over partial accumulators and the reduction tree",
                  "the dask worker pool: completion order, worker count, duplicate execution (SimExecutor)"],
}
ASSUMPTIONS = [
    "direct replica = physt's own all-at-once construction over the result's reported bins (differential); "
    "the absolute edge rule is C01/C02",
    "bit-exact when weights are integer/dyadic, 1e-10*sum|w| otherwise; statistics always toleranced",
    "dask: the pool is simulated through dask's public `get_async` with a custom executor; dask.threaded's real "
    "thread pool is not used (uncontrolled interleaving does not replay)",
]

REFUSALS = ["other_ndim", "incompatible_bins", "shifted_by_one_bin", "int", "str", "none", "list", "ndarray", "shifted_grid",
            "near_width", "near_width", "empty_left_other_grid", "empty_left_other_grid"]


# ----------------------------------------------------------------------------
# generation
# ----------------------------------------------------------------------------
def generate(rng, seed, part):
    if rng.random() < 0.12:
        return generate_dask(rng)
    ndim = rng.choice([1, 1, 1, 2, 2, 3])
    mode = rng.choice(["fixed", "fixed", "adaptive"])
    wkind = rng.choice(build.WEIGHT_KINDS)
    far = rng.random() < 0.12  # narrow bins far from the origin: edge differences << |edge|
    bulk = bulk_tier(rng)
    if mode == "fixed":
        mb = {1: 6, 2: 4, 3: 3}[ndim] if not bulk else {1: rng.choice([40, 150]), 2: 25, 3: 9}[ndim]
        axes = [build.gen_axis(rng, min_bins=1 if not bulk else mb // 3, max_bins=mb, scaled=0.08) for _ in range(ndim)]
        if far:
            for k in range(ndim):
                wf = rng.choice([1e-3, 0.01, 0.25])
                axes[k] = {"kind": "fixed", "width": wf, "count": rng.randint(2, 5),
                           "times_min": int(rng.choice([1e3, 5e4, -2e3]) / wf), "ire": rng.random() < 0.4}
    else:
        axes = []
        for _ in range(ndim):
            w = rng.choice([1.0, 2.0, 0.5, 0.25, 0.1, 0.3, 2.5])
            axes.append({"kind": "fixed", "width": w, "count": 0, "adaptive": True,
                         "shift": rng.choice([None, None, 0.5, w / 2])})
            if far:
                axes[-1]["width"] = rng.choice([1e-3, 0.01, 0.25])
                axes[-1]["offset"] = rng.choice([1e3, 5e4, -2e3])
    n = rng.choice([0, 2, 3, 5, 8, 12, 20, 30])
    deep = deep_tier(rng)
    if deep:
        n = rng.choice([50, 100, 200])
    if bulk:
        n = rng.choice([1000, 3000, 6000, 9000])
    entries = []
    if mode == "fixed":
        pools = [build.axis_pool(build.spec_bins(a)) for a in axes]
        for _ in range(n):
            vals = [build.draw_value(rng, p) for p in pools]
            entries.append([vals[0] if ndim == 1 else vals, build.draw_weight(rng, wkind)])
    else:
        span = 12 if ndim == 1 else (6 if ndim == 2 else 3)
        if bulk:
            span = {1: 150, 2: 20, 3: 6}[ndim]
        for _ in range(n):
            vals = []
            for a in axes:
                k = rng.randint(-span, span) + int(a.get("offset", 0.0) / a["width"])
                x = (k + rng.choice([0.0, 0.0, 0.5, rng.random()])) * a["width"] + (a["shift"] or 0.0)
                if rng.random() < 0.15:
                    x = build.near(x, rng.choice([-1, 1]))
                vals.append(x)
            entries.append([vals[0] if ndim == 1 else vals, build.draw_weight(rng, wkind)])
    P = rng.randint(1, 5) if not deep else rng.randint(4, 9)
    assign = [rng.randrange(P) for _ in range(n)]
    if rng.random() < 0.3 and n:  # contiguous blocks -> disjoint ranges for adaptive partials
        order = sorted(range(n), key=lambda i: entries[i][0] if ndim == 1 else entries[i][0][0])
        for rank, i in enumerate(order):
            assign[i] = min(P - 1, rank * P // max(n, 1))
    partials = []
    for p in range(P):
        idx = [i for i in range(n) if assign[i] == p]
        dt = build.pick_dtype(rng, wkind)
        if bulk and dt in ("float16", "int16"):
            dt = "float64" if dt == "float16" else "int32"  # thousands of entries (times a few doublings)
        partials.append({"idx": idx, "dtype": dt,
                         "path": rng.choice(["construct", "fill_n", "fill_n", "fill" if not bulk else "fill_n"]),
                         # in adaptive mode some partials are frozen (non-adaptive) on the common grid afterwards
                         "frozen": mode == "adaptive" and bool(idx) and rng.random() < 0.25})
    if mode == "adaptive":
        # the public API lets two histograms be built over one binning OBJECT (h1(data, a.binning),
        # Histogram1D(binning=a.binning), HistogramCollection.create): a later in-place `a += c` that has to
        # extend a's range must leave the other histogram alone
        for p in range(1, P):
            q = rng.randrange(p)
            if rng.random() < 0.25 and not partials[p]["frozen"] and not partials[q]["frozen"] \
                    and partials[q].get("share") is None:
                partials[p]["share"] = q
    ops = []
    nodes = list(range(P))  # node ids; new results get fresh ids
    nxt = P
    steps = rng.randint(1, 8) if not deep else rng.randint(8, 24)
    if bulk:
        steps = rng.randint(1, 4)
    for _ in range(steps):
        r = rng.random()
        if r < 0.30 and len(nodes) >= 1:
            a, b = rng.choice(nodes), rng.choice(nodes)
            ops.append({"op": "add", "a": a, "b": b, "out": nxt})
            nodes.append(nxt)
            nxt += 1
        elif r < 0.45:
            a, b = rng.choice(nodes), rng.choice(nodes)
            ops.append({"op": "iadd_copy", "a": a, "b": b, "out": nxt})
            nodes.append(nxt)
            nxt += 1
        elif r < 0.55:
            a, b = rng.choice(nodes), rng.choice(nodes)
            ops.append({"op": "iadd", "a": a, "b": b})
        elif r < 0.70:
            k = min(rng.choice([1, 1, 2, 3, 4, 5]), len(nodes))
            items = [rng.choice(nodes) for _ in range(k)]
            kind = "coll_sum" if (ndim == 1 and mode == "fixed" and rng.random() < 0.4) else "sum"
            ops.append({"op": kind, "items": items, "out": nxt})
            if kind == "coll_sum":
                ops[-1]["via_add"] = rng.random() < 0.5
            if rng.random() < 0.35:
                # the usual continuation of a reduction: accumulate further into the sum, in place
                ops[-1]["then_iadd"] = rng.choice(nodes)
            nodes.append(nxt)
            nxt += 1
        elif r < 0.80:
            a, b = rng.choice(nodes), rng.choice(nodes)
            ops.append({"op": "commute", "a": a, "b": b})
        elif r < 0.85:
            ops.append({"op": "radd0", "a": rng.choice(nodes), "out": nxt})
            if rng.random() < 0.5:
                ops[-1]["then_iadd"] = rng.choice(nodes)
            nodes.append(nxt)
            nxt += 1
        else:
            ops.append({"op": "refuse", "kind": rng.choice(REFUSALS), "a": rng.choice(nodes),
                        "inplace": rng.random() < 0.5})
    if ndim == 1 and mode == "fixed" and rng.random() < 0.3 and n:
        # a persistent HistogramCollection over some partials: sum, then a member is filled directly, then sum again
        members = [rng.randrange(P) for _ in range(rng.randint(1, 3))]
        members = list(dict.fromkeys(members))
        ops.append({"op": "coll_make", "items": members})
        for _ in range(rng.randint(1, 4)):
            if rng.random() < 0.5:
                ops.append({"op": "coll_sum_again", "out": nxt})
                nxt += 1
            else:
                ops.append({"op": "coll_fill_member", "m": rng.randrange(len(members)), "i": rng.randrange(n)})
        ops.append({"op": "coll_sum_again", "out": nxt})
        nxt += 1
    # make sure a full reduction of all partials exists in two different shapes
    perm = list(range(P))
    rng.shuffle(perm)
    ops.append({"op": "sum", "items": perm, "out": nxt})
    nxt += 1
    acc = perm[-1]
    for p in reversed(perm[:-1]):
        ops.append({"op": "add", "a": p, "b": acc, "out": nxt})
        acc = nxt
        nxt += 1
    cfg = {"ndim": ndim, "mode": mode, "axes": axes, "weights": wkind, "exact": wkind != "float",
           "partials": partials}
    return {"property": PROPERTY, "scenario": "reduce_tree", "config": cfg, "entries": entries, "ops": ops}


def generate_dask(rng):
    ndim = rng.choice([1, 1, 2, 3])
    n = rng.choice([1, 4, 9, 17, 40, 64])
    spec = rng.choice(["fixed_width", "fixed_width", "edges"])
    wdt = rng.choice([1.0, 0.5, 2.0, 0.25])
    data = []
    for _ in range(n):
        row = [rng.randint(-20, 20) * wdt / 2 + rng.choice([0.0, wdt / 4]) for _ in range(ndim)]
        data.append(row[0] if ndim == 1 else row)
    n_chunks = rng.randint(1, min(6, n))
    cuts = sorted(rng.sample(range(1, n), n_chunks - 1)) if n > 1 else []
    sizes = [b - a for a, b in zip([0] + cuts, cuts + [n])]
    order = []
    return {"property": PROPERTY, "scenario": "dask_pool",
            "config": {"ndim": ndim, "spec": spec, "width": wdt, "chunks": sizes,
                       "workers": rng.randint(1, 4), "dup_rate": rng.choice([0.0, 0.0, 0.3]),
                       "pool_seed": rng.randrange(1 << 30), "facade": rng.choice(["h1", "h"]) if ndim == 1 else
                       rng.choice(["h", "h" if ndim > 3 else {2: "h2", 3: "h3"}[ndim]])},
            "entries": data, "ops": order}


# ----------------------------------------------------------------------------
# execution: reduce tree
# ----------------------------------------------------------------------------
class Node:
    def __init__(self, h, bag):
        self.h = h
        self.bag = list(bag)  # entry indices with multiplicity


def make_axes(cfg):
    return [build.make_binning(a) for a in cfg["axes"]]


def entry_arrays(entries, idx, ndim, wkind):
    data = np.asarray([entries[i][0] for i in idx], dtype=float).reshape(len(idx), ndim)
    if wkind == "none":
        return data, None
    return data, np.asarray([entries[i][1] for i in idx], dtype=np.int64 if wkind == "int" else np.float64)


def build_partial(cfg, entries, spec):
    """One partial accumulator from its share of the stream."""
    from physt import h as f_h, h1 as f_h1

    ndim = cfg["ndim"]
    idx = [i for i in spec["idx"] if i < len(entries)]
    data, weights = entry_arrays(entries, idx, ndim, cfg["weights"])
    dtype = np.dtype(spec["dtype"]) if spec["dtype"] else None
    path = spec["path"]
    axes = make_axes(cfg)
    if path == "construct" and cfg["mode"] == "adaptive":
        # data-derived adaptive binning on the common grid (string method, as the dask facade does)
        kw = {"adaptive": True}
        if weights is not None and len(idx):
            kw["weights"] = weights
        shifts = [a.get("shift") for a in cfg["axes"]]
        if ndim == 1:
            kw["bin_width"] = cfg["axes"][0]["width"]
            if shifts[0] is not None:
                kw["bin_shift"] = shifts[0]
            if dtype is not None:
                kw["dtype"] = dtype
            out = f_h1(data[:, 0] if len(idx) else None, "fixed_width", **kw)
        else:
            kw["bin_width"] = [a["width"] for a in cfg["axes"]]
            if any(x is not None for x in shifts):
                kw["bin_shift"] = shifts
            out = f_h(data if len(idx) else None, "fixed_width", dim=ndim, **kw)
        if spec.get("frozen"):
            out.set_adaptive(False)
        return out
    if path == "construct":
        kw = {}
        if weights is not None:
            kw["weights"] = weights
        if ndim == 1:
            if dtype is not None:
                kw["dtype"] = dtype
            return f_h1(data[:, 0], axes[0], **kw)
        return f_h(data, axes, **kw)
    hs = {"axes": cfg["axes"], "dtype": spec["dtype"], "keep_missed": True}
    h = build.make_empty(hs)
    if spec.get("frozen"):
        def freeze(x):
            x.set_adaptive(False)
            return x
    else:
        def freeze(x):
            return x
    if path == "fill":
        for k, i in enumerate(idx):
            v = data[k, 0] if ndim == 1 else data[k].tolist()
            if weights is None:
                h.fill(v)
            else:
                h.fill(v, entries[i][1])
    else:
        kw = {} if weights is None else {"weights": weights}
        h.fill_n(data[:, 0] if ndim == 1 else data, **kw)
    return freeze(h)


def build_sharing_partial(cfg, entries, spec, base):
    """A partial built over the very binning object(s) of another one; it only receives the entries of its share that
    lie inside the current bins (so that nothing grows while the objects are shared)."""
    from physt.histogram1d import Histogram1D
    from physt.histogram_nd import Histogram2D, HistogramND

    ndim = cfg["ndim"]
    idx = [i for i in spec["idx"] if i < len(entries)]
    lo = [float(np.asarray(b.bins)[0, 0]) for b in base.binnings]
    hi = [float(np.asarray(b.bins)[-1, 1]) for b in base.binnings]
    inside = []
    for i in idx:
        v = entries[i][0]
        v = [v] if ndim == 1 else v
        if all(lo[a] <= v[a] < hi[a] for a in range(ndim)):
            inside.append(i)
    dtype = {"dtype": np.dtype(spec["dtype"])} if spec["dtype"] else {}
    if ndim == 1:
        h = Histogram1D(binning=base.binning, **dtype)
    else:
        h = (Histogram2D if ndim == 2 else HistogramND)(list(base.binnings), **dtype)
    if inside:
        data, weights = entry_arrays(entries, inside, ndim, cfg["weights"])
        kw = {} if weights is None else {"weights": weights}
        h.fill_n(data[:, 0] if ndim == 1 else data, **kw)
    return h, inside


def direct_replica(cfg, entries, bag, like):
    """All-at-once construction of the bag over the bins `like` reports (fresh, static copies)."""
    from physt import h as f_h, h1 as f_h1
    from physt.binnings import StaticBinning

    ndim = cfg["ndim"]
    data, weights = entry_arrays(entries, bag, ndim, cfg["weights"])
    if cfg["mode"] == "fixed":
        bins = make_axes(cfg)
    else:
        bins = [StaticBinning(np.asarray(b.bins, dtype=float).copy(), includes_right_edge=False)
                for b in like.binnings]
    kw = {} if weights is None else {"weights": weights}
    if ndim == 1:
        if not bool(bins[0].is_consecutive()):
            kw["dtype"] = np.float64  # (integer dtype + gapped bins is C03's known finding; not the subject here)
        return f_h1(data[:, 0], bins[0], **kw)
    return f_h(data, bins, **kw)


def stats_tuple(h):
    st = getattr(h, "statistics", None)
    return None if st is None else tuple(float(getattr(st, f)) for f in STAT_FIELDS)


def numeric_equal(cfg, a, b, scale, what, sig, ctx, msg):
    """Compare two histograms numerically (bins exactly, contents per exact/tolerant mode)."""
    exact = cfg["exact"]
    for ax in range(a.ndim):
        if not np.array_equal(np.asarray(a.binnings[ax].bins), np.asarray(b.binnings[ax].bins)):
            ctx.violation(what, f"{sig}/bins", f"{msg}: bins differ on axis {ax}: {a.binnings[ax].bins!r} vs "
                                               f"{b.binnings[ax].bins!r}"[:1500])
    if not arrays_equal(a.frequencies, b.frequencies, exact=exact, scale=scale):
        ctx.violation(what, f"{sig}/frequencies", f"{msg}: frequencies {first_diff(a.frequencies, b.frequencies)}")
    if not arrays_equal(a.errors2, b.errors2, exact=exact, scale=scale * 16):
        ctx.violation(what, f"{sig}/errors2", f"{msg}: errors2 {first_diff(a.errors2, b.errors2)}")
    ma, mb = missed_tuple(a), missed_tuple(b)
    # "consecutive" as the statement means it: every bin starts exactly where the previous one ends (physt's own
    # is_consecutive() has an absolute tolerance and calls gapped bins of magnitude 1e-7 consecutive)
    consecutive = all(np.array_equal(np.asarray(x.bins)[1:, 0], np.asarray(x.bins)[:-1, 1]) for x in a.binnings)
    for j, (x, y) in enumerate(zip(ma, mb)):
        if a.ndim == 1 and not consecutive and (math.isnan(x) or math.isnan(y)):
            continue
        if not num_equal(x, y, exact=exact, scale=scale):
            ctx.violation(what, f"{sig}/missed", f"{msg}: missed bookkeeping {ma} vs {mb}")


def execute(plan, ctx, rules=("C05",)):
    if plan["scenario"] == "dask_pool":
        return execute_dask(plan, ctx)
    from physt.histogram_collection import HistogramCollection

    cfg = plan["config"]
    entries = plan["entries"]
    ndim = cfg["ndim"]
    exact = cfg["exact"]
    c05 = "C05" in rules
    c13 = "C13" in rules
    c14 = "C14" in rules
    kind = ("1D" if ndim == 1 else "ND") + "/" + cfg["mode"]
    nodes = {}
    ctx.state(ndim, cfg["mode"], cfg["weights"], tuple(p["dtype"] for p in cfg["partials"]))
    if len(set(p["dtype"] for p in cfg["partials"])) > 1:
        ctx.fault("dtype_mix")
    for p, spec in enumerate(cfg["partials"]):
        base = nodes.get(spec.get("share")) if spec.get("share") is not None else None
        if base is not None and all(b.bin_count for b in base.h.binnings) and base.h.is_adaptive():
            ok, h = attempt(build_sharing_partial, cfg, entries, spec, base.h)
            if ok:
                h, inside = h
                ctx.ev("map", "partial:shares-binning-object", p, "ok")
                ctx.fault("shared_binning_object")
                nodes[p] = Node(h, inside)
                continue
        ok, h = attempt(build_partial, cfg, entries, spec)
        ctx.ev("map", f"partial:{spec['path']}", p, "ok" if ok else exc_tag(h))
        if not ok:
            ctx.probe("setup_failed:" + type(h).__name__)  # creation problems belong to C03/C04/C13
            return
        nodes[p] = Node(h, [i for i in spec["idx"] if i < len(entries)])
        if not nodes[p].bag:
            ctx.fault("empty_partial")

    def wscale(bag):
        return sum(abs(entries[i][1]) if entries[i][1] is not None else 1.0 for i in bag) + 1.0

    def check_result(res, bag, operands, opname):
        """res must equal the direct replica of `bag`; statistics add up; dtype promotes."""
        sc = wscale(bag)
        if c05:
            if cfg["mode"] == "adaptive":
                for ax in range(ndim):
                    firsts = [float(o.h.binnings[ax].bins[0, 0]) for o in operands if o.h.binnings[ax].bin_count]
                    lasts = [float(o.h.binnings[ax].bins[-1, 1]) for o in operands if o.h.binnings[ax].bin_count]
                    rb = np.asarray(res.binnings[ax].bins, dtype=float)
                    if firsts:
                        ctx.fault("adaptive_union") if len(set(firsts)) > 1 or len(set(lasts)) > 1 else None
                        if rb.shape[0] == 0 or rb[0, 0] != min(firsts) or rb[-1, 1] != max(lasts) \
                                or not np.array_equal(rb[1:, 0], rb[:-1, 1]):
                            ctx.violation("C05/adaptive-union", f"C05/union-range/{kind}/{opname}",
                                          f"{opname}: result bins on axis {ax} span {rb[[0, -1], [0, 1]].tolist() if rb.size else []} "
                                          f"but the operands span [{min(firsts)}, {max(lasts)}]")
            if any(b.bin_count == 0 for b in res.binnings):
                ok, ref = True, None
                if res.total != 0 or bag:
                    ctx.violation("C05/equals-combined-data", f"C05/sum!=direct/{kind}/{opname}/no-bins",
                                  f"{opname}: result has no bins but {len(bag)} entries were entered")
            else:
                ok, ref = attempt(direct_replica, cfg, entries, bag, res)
            if ref is None and ok:
                pass
            elif not ok:
                ctx.probe("direct_replica_failed:" + type(ref).__name__)
            else:
                numeric_equal(cfg, res, ref, sc, "C05/equals-combined-data", f"C05/sum!=direct/{kind}/{opname}",
                              ctx, f"{opname} of {len(operands)} operand(s) ({len(bag)} entries) vs direct construction "
                                   f"from the combined data")
            if ndim == 1 and all(stats_tuple(o.h) is not None for o in operands):
                exp = [0.0, 0.0, math.inf, -math.inf, 0.0]
                for o in operands:
                    s = stats_tuple(o.h)
                    exp[0] += s[0]
                    exp[1] += s[1]
                    exp[2] = min(exp[2], s[2])
                    exp[3] = max(exp[3], s[3])
                    exp[4] += s[4]
                got = stats_tuple(res)
                if len(operands) > 1 or opname in ("add", "iadd", "iadd_copy"):
                    ssc = sum(abs(x) for x in exp[:2]) + sc
                    names = STAT_FIELDS[:5]
                    for j, nme in enumerate(names):
                        e_, g_ = exp[j], got[j]
                        if any(math.isnan(stats_tuple(o.h)[j]) for o in operands):
                            continue
                        tol_exact = j in (2, 3)
                        if not num_equal(e_, g_, exact=tol_exact, scale=ssc * 1e3):
                            ctx.violation("C05/statistics-add", f"C05/statistics/{nme}/{kind}/{opname}",
                                          f"{opname}: statistics.{nme} = {g_!r}, operands give {e_!r}")
        if c13:
            want = operands[0].h.dtype
            for o in operands[1:]:
                want = np.promote_types(want, o.h.dtype)
            if opname != "radd0" and np.dtype(res.dtype) != want:
                ctx.violation("C13/promotion", f"C13/add-dtype/{opname}",
                              f"{opname} of dtypes {[str(o.h.dtype) for o in operands]} gave {res.dtype}, "
                              f"numpy promotion gives {want}")
            dtype_consistent(ctx, res, opname)
        if c14 and ndim == 1:
            check_moments(ctx, cfg, entries, res, bag, opname)

    def accumulate_into(res, bag, operands, extra_id, opname):
        """`res += <another node>` right after res was produced: the operands res came from must not change."""
        extra = nodes.get(extra_id)
        if extra is None or not c05:
            return bag, True
        if (not res.is_adaptive()) and not bins_equal(res, extra.h):
            return bag, True  # would be refused (frozen left operand): not the subject here
        pres_ = [snap(x.h) for x in operands]
        ok_, r_ = attempt(lambda: res.__iadd__(extra.h))
        ctx.ev("reduce", f"{opname}+accumulate", extra_id, "ok" if ok_ else exc_tag(r_))
        ctx.fault("accumulate_into_result")
        for k_, (x, pre_) in enumerate(zip(operands, pres_)):
            d_ = snap_diff(pre_, snap(x.h))
            if d_:
                ctx.violation("C05/operands-unchanged", f"C05/operand-modified/{kind}/{opname}-then-accumulate",
                              f"{opname} returned a result; accumulating into that result in place (+=) changed "
                              f"operand {k_} of the {opname}: {d_}")
        if not ok_:
            return bag, False
        return bag + list(extra.bag), True

    n_reduce = 0
    persistent = None
    for step, op in enumerate(plan["ops"]):
        ctx.step = step
        ctx.advance()
        o = op["op"]
        if o in ("add", "iadd_copy", "iadd", "commute"):
            a, b = nodes.get(op["a"]), nodes.get(op["b"])
            if a is None or b is None:
                continue
            if op["a"] == op["b"]:
                ctx.fault("self_add")
            pre_a, pre_b = snap(a.h), snap(b.h)
            if o == "add":
                ok, res = attempt(lambda: a.h + b.h)
            elif o == "iadd_copy":
                def f():
                    c = a.h.copy()
                    c += b.h
                    return c
                ok, res = attempt(f)
            elif o == "iadd":
                def g():
                    x = a.h
                    x += b.h
                    return x
                # in-place on a: judge against the operands as they were
                a_before = Node(a.h.copy(), a.bag)
                b_before = Node(b.h.copy(), b.bag) if op["a"] == op["b"] else b
                ok, res = attempt(g)
            else:
                ok, res = attempt(lambda: (a.h + b.h, b.h + a.h))
                ctx.fault("operand_swap")
            ctx.ev("reduce", o, (op["a"], op["b"]), "ok" if ok else exc_tag(res))
            ctx.abstract(o, type(a.h).__name__, str(a.h.dtype), str(b.h.dtype), ok)
            lefts = [a.h, b.h] if o == "commute" else [a.h]
            rights = [b.h, a.h] if o == "commute" else [b.h]
            must_refuse = any((not l.is_adaptive()) and not bins_equal(l, r) for l, r in zip(lefts, rights))
            if must_refuse:
                # a frozen (non-adaptive) left operand over other bins: "incompatible bins (without adaptivity)"
                ctx.fault("refusal_probe")
                if ok:
                    ctx.violation("C05/refusal", f"C05/not-refused/frozen-left-operand/{o}",
                                  f"{o}: the left operand is not adaptive and has other bins than the right one, "
                                  f"yet the addition was accepted")
                if c05:
                    da, db = snap_diff(pre_a, snap(a.h), ignore=("dtype",)), snap_diff(pre_b, snap(b.h), ignore=("dtype",))
                    da = [x for x in da if not lossless_promotion_only(x, pre_a, snap(a.h))]
                    db = [x for x in db if not lossless_promotion_only(x, pre_b, snap(b.h))]
                    if da or db:
                        ctx.violation("C05/refusal", f"C05/refused-but-changed/frozen-left-operand/{o}",
                                      f"refused {o} changed its operands: left {da} right {db}")
                continue
            if not ok:
                if c05:
                    ctx.violation("C05/valid-add-accepted", f"C05/add-raised/{kind}/{exc_tag(res)}{noise_tag(res, [a.h, b.h])}",
                                  f"{o} of two histograms over compatible bins raised {res!r}; "
                                  f"bins a={a.h.bins!r} b={b.h.bins!r}"[:1500])
                return
            n_reduce += 1
            bag = a.bag + b.bag
            if o == "iadd":
                if op["a"] != op["b"] and snap_diff(pre_b, snap(b.h)) and c05:
                    ctx.violation("C05/operands-unchanged", f"C05/operand-modified/{kind}/iadd/right",
                                  f"a += b changed b: {snap_diff(pre_b, snap(b.h))}")
                check_result(res, bag, [a_before, b_before], "iadd")
                a.bag = bag
                continue
            if c05:
                da, db = snap_diff(pre_a, snap(a.h)), snap_diff(pre_b, snap(b.h))
                if da or db:
                    ctx.violation("C05/operands-unchanged", f"C05/operand-modified/{kind}/{o}",
                                  f"{o} modified its operands: left {da} right {db}")
            if o == "commute":
                ab, ba = res
                if c05:
                    numeric_equal(cfg, ab, ba, wscale(bag), "C05/commutative", f"C05/a+b!=b+a/{kind}", ctx,
                                  "a + b vs b + a")
                    sa, sb = stats_tuple(ab), stats_tuple(ba)
                    if sa is not None and sb is not None:
                        for j in range(5):
                            if not num_equal(sa[j], sb[j], exact=False, scale=(abs(sa[j]) if not math.isnan(sa[j]) else 0) * 1e3 + 1.0):
                                ctx.violation("C05/commutative", f"C05/a+b!=b+a/{kind}/statistics",
                                              f"statistics of a+b {sa} vs b+a {sb}")
                continue
            check_result(res, bag, [a, b], o)
            nodes[op["out"]] = Node(res, bag)
        elif o in ("sum", "coll_sum"):
            items = [nodes[i] for i in op["items"] if i in nodes]
            if not items:
                continue
            pres = [snap(x.h) for x in items]
            if o == "sum":
                ok, res = attempt(lambda: sum(x.h for x in items))
            elif op.get("via_add"):
                def coll_by_add():
                    # the members enter one by one (the same histogram may well be entered twice: it counts twice)
                    c = HistogramCollection(items[0].h)
                    for x in items[1:]:
                        c.add(x.h)
                    return c.sum()
                ok, res = attempt(coll_by_add)
            else:
                ok, res = attempt(lambda: HistogramCollection(*[x.h for x in items]).sum())
            ctx.ev("reduce", o, tuple(op["items"]), "ok" if ok else exc_tag(res))
            ctx.abstract(o, len(items), ok)
            if len(items) > 2:
                ctx.fault("tree_shape")
            if not ok:
                frozen_first = (not items[0].h.is_adaptive()) and any(not bins_equal(items[0].h, x.h) for x in items[1:])
                if frozen_first:
                    ctx.fault("refusal_probe")
                    continue
                if c05:
                    ctx.violation("C05/valid-add-accepted",
                                  f"C05/add-raised/{kind}/{exc_tag(res)}{noise_tag(res, [x.h for x in items])}",
                                  f"{o} over {len(items)} compatible histograms raised {res!r}")
                return
            n_reduce += 1
            if c05:
                for k, (x, pre) in enumerate(zip(items, pres)):
                    d = snap_diff(pre, snap(x.h))
                    if d:
                        ctx.violation("C05/operands-unchanged", f"C05/operand-modified/{kind}/{o}",
                                      f"{o} modified operand {k}: {d}")
            bag = [i for x in items for i in x.bag]
            check_result(res, bag, items, o)
            usable = True
            if op.get("then_iadd") is not None:
                bag, usable = accumulate_into(res, bag, items, op["then_iadd"], o)
            if usable and res is not items[0].h:
                nodes[op["out"]] = Node(res, bag)
        elif o == "coll_make":
            items = [nodes[i] for i in op["items"] if i in nodes]
            if not items or ndim != 1:
                continue
            ok, coll = attempt(lambda: HistogramCollection(*[x.h for x in items]))
            ctx.ev("reduce", o, tuple(op["items"]), "ok" if ok else exc_tag(coll))
            if not ok:
                persistent = None
                continue
            persistent = (coll, items)
        elif o == "coll_fill_member":
            if not persistent:
                continue
            coll, items = persistent
            m = items[op["m"] % len(items)]
            i = op["i"]
            if i >= len(entries):
                continue
            v, w = entries[i]
            ok, res = attempt(m.h.fill, v) if w is None else attempt(m.h.fill, v, w)
            ctx.ev("reduce", o, i, "ok" if ok else exc_tag(res))
            ctx.abstract(o, ok)
            if ok:
                m.bag.append(i)
                ctx.fault("member_filled_between_sums")
        elif o == "coll_sum_again":
            if not persistent:
                continue
            coll, items = persistent
            ok, res = attempt(coll.sum)
            ctx.ev("reduce", o, None, "ok" if ok else exc_tag(res))
            ctx.abstract(o, len(items), ok)
            if not ok:
                if c05:
                    ctx.violation("C05/valid-add-accepted", f"C05/add-raised/{kind}/{exc_tag(res)}",
                                  f"HistogramCollection.sum() raised {res!r}")
                return
            n_reduce += 1
            bag = [i for x in items for i in x.bag]
            check_result(res, bag, items, "coll_sum")
        elif o == "radd0":
            a = nodes.get(op["a"])
            if a is None:
                continue
            pre = snap(a.h)
            ok, res = attempt(lambda: 0 + a.h)
            ctx.ev("reduce", o, op["a"], "ok" if ok else exc_tag(res))
            ctx.abstract(o, ok)
            if not ok:
                if c05:
                    ctx.violation("C05/valid-add-accepted", f"C05/add-raised/{kind}/{exc_tag(res)}",
                                  f"0 + h raised {res!r}")
                return
            if c05 and snap_diff(pre, snap(a.h)):
                ctx.violation("C05/operands-unchanged", f"C05/operand-modified/{kind}/radd0", "0 + h modified h")
            check_result(res, a.bag, [a], "radd0")
            if op.get("then_iadd") is not None:
                accumulate_into(res, list(a.bag), [a], op["then_iadd"], "radd0")
        elif o == "refuse":
            a = nodes.get(op["a"])
            if a is None or not c05:
                continue
            if op["kind"] == "empty_left_other_grid":
                # an accumulator without any bins yet, set up on another grid (shift) than the histogram added to it:
                # either that is refused, or the sum is the histogram itself - never its counts on moved bins
                if cfg["mode"] != "adaptive" or any(b.bin_count == 0 for b in a.h.binnings) or not a.h.is_adaptive():
                    continue
                from physt.binnings import FixedWidthBinning
                from physt.histogram1d import Histogram1D
                from physt.histogram_nd import HistogramND

                bs = [FixedWidthBinning(bin_width=b.bin_width, bin_count=0, adaptive=True,
                                        bin_shift=b._shift + b.bin_width * 0.37) for b in a.h.binnings]
                left = Histogram1D(bs[0]) if a.h.ndim == 1 else HistogramND(bs)
                pre = snap(a.h)
                how = ["add", "iadd", "sum"][(step + len(a.bag)) % 3]
                if how == "add":
                    ok, res = attempt(lambda: left + a.h)
                elif how == "iadd":
                    ok, res = attempt(lambda: left.__iadd__(a.h))
                else:
                    ok, res = attempt(lambda: sum([left, a.h]))
                ctx.fault("refusal_probe")
                ctx.ev("reduce", f"empty-left-other-grid:{how}", op["a"], "accepted" if ok else exc_tag(res))
                ctx.abstract("refuse", "empty-left-other-grid", how, ok)
                if snap_diff(pre, snap(a.h)):
                    ctx.violation("C05/operands-unchanged", f"C05/operand-modified/{kind}/empty-left-other-grid",
                                  f"adding a histogram to an empty accumulator changed the histogram: {snap_diff(pre, snap(a.h))}")
                if ok:
                    numeric_equal(cfg, res, a.h, wscale(a.bag), "C05/equals-combined-data",
                                  f"C05/sum!=direct/{kind}/empty-left-other-grid", ctx,
                                  f"an empty accumulator on another grid + h ({how}) was accepted: the sum must then be h itself")
                continue
            other, label = refusal_operand(op["kind"], a.h, cfg)
            if other is NotImplemented:
                continue
            ctx.fault("refusal_probe")
            pre = snap(a.h)
            pre_o = snap(other) if hasattr(other, "binnings") else None
            if op.get("inplace"):
                def f2():
                    x = a.h
                    x += other
                    return x
                ok, res = attempt(f2)
            else:
                ok, res = attempt(lambda: a.h + other)
            ctx.ev("reduce", f"refuse:{label}", op["a"], "accepted" if ok else exc_tag(res))
            ctx.abstract("refuse", label, bool(op.get("inplace")), ok)
            if ok:
                ctx.violation("C05/refusal", f"C05/not-refused/{label}/{'iadd' if op.get('inplace') else 'add'}",
                              f"adding {label} operand to a {type(a.h).__name__} over {a.h.bins!r} was accepted "
                              f"and gave {res!r}"[:1500])
            d = snap_diff(pre, snap(a.h), ignore=("dtype",))
            d = [x for x in d if not lossless_promotion_only(x, pre, snap(a.h))]
            if d:
                ctx.violation("C05/refusal", f"C05/refused-but-changed/{label}/{'iadd' if op.get('inplace') else 'add'}",
                              f"refused addition of {label} operand changed the histogram: {d}")
            if pre_o is not None and snap_diff(pre_o, snap(other)):
                ctx.violation("C05/refusal", f"C05/refused-but-changed-operand/{label}",
                              f"refused addition changed the other operand: {snap_diff(pre_o, snap(other))}")
    # associativity / chunk-invariance: all nodes with the same bag agree
    if c05:
        groups = {}
        for nid, nd in sorted(nodes.items()):
            groups.setdefault(tuple(sorted(nd.bag)), []).append((nid, nd))
        for bag, members in groups.items():
            for (i0, n0), (i1, n1) in zip(members, members[1:]):
                same_bins = all(np.array_equal(np.asarray(x.bins), np.asarray(y.bins))
                                for x, y in zip(n0.h.binnings, n1.h.binnings))
                if not same_bins:
                    continue  # adaptive partial vs. reduced union range: compared through the direct replica
                numeric_equal(cfg, n0.h, n1.h, wscale(bag), "C05/associative",
                              f"C05/same-bag-different-tree/{kind}", ctx,
                              f"nodes {i0} and {i1} hold the same {len(bag)} entries via different reduction trees")
    if n_reduce >= 2:
        ctx.nontrivial += 1


def noise_tag(exc, hists):
    """Distinguishes the known rounding-noise refusal from a refusal caused by really missed weight."""
    if "missed values" not in str(exc):
        return ""
    worst = max((abs(float(h.missed)) / (abs(float(h.total)) + 1e-300) for h in hists), default=0.0)
    return "/missed-is-rounding-noise" if worst < 1e-9 else "/missed-is-real"


def bins_equal(x, y):
    return x.ndim == y.ndim and all(np.array_equal(np.asarray(p.bins), np.asarray(q.bins))
                                    for p, q in zip(x.binnings, y.binnings))


def lossless_promotion_only(field, pre, post):
    """A refused call may already have promoted the dtype losslessly: arrays then differ in bytes only."""
    if field not in ("freq", "err2", "missed"):
        return False
    if field == "missed":
        return pre["missed"] == post["missed"]
    a = np.frombuffer(pre[field][2], dtype=np.dtype(pre[field][0])).astype(np.float64)
    b = np.frombuffer(post[field][2], dtype=np.dtype(post[field][0])).astype(np.float64)
    return pre[field][1] == post[field][1] and np.array_equal(a, b, equal_nan=True)


def refusal_operand(kind, h, cfg):
    from physt.binnings import FixedWidthBinning, StaticBinning
    from physt.histogram1d import Histogram1D
    from physt.histogram_nd import HistogramND

    if kind == "other_ndim":
        if h.ndim == 1:
            return HistogramND([StaticBinning(np.asarray(h.bins)), StaticBinning([0.0, 1.0])]), "other-ndim"
        return Histogram1D(StaticBinning(np.asarray(h.bins[0]))), "other-ndim"
    if kind in ("incompatible_bins", "shifted_by_one_bin"):
        if cfg["mode"] != "fixed":
            return NotImplemented, ""
        bs = []
        for b in h.binnings:
            arr = np.asarray(b.bins, dtype=float).copy()
            arr = arr + (0.37 if kind == "incompatible_bins" else 1.0) * float(arr[0, 1] - arr[0, 0])
            bs.append(StaticBinning(arr))
        other = Histogram1D(bs[0]) if h.ndim == 1 else type(h)(bs) if type(h).__name__ != "HistogramND" else HistogramND(bs)
        return other, "incompatible-bins" if kind == "incompatible_bins" else "shifted-by-one-bin"
    if kind == "near_width":
        # adaptive operand on a grid whose width differs by a relative 9e-6 (or 1e-9), far from the origin: there
        # is no common grid, bin k of one is not bin k of the other
        if cfg["mode"] != "adaptive" or any(b.bin_count == 0 for b in h.binnings) or not h.is_adaptive():
            return NotImplemented, ""
        eps = 9e-6 if (h.shape[0] % 2) else 1e-9
        off = {1: 20000, 2: 1500}.get(h.ndim, 100)  # (a wrongly accepted union allocates off**ndim cells)
        bs = [FixedWidthBinning(bin_width=b.bin_width * (1 + eps), bin_count=2,
                                bin_times_min=int(round((b.first_edge - b._shift) / b.bin_width)) + b.bin_count + off,
                                bin_shift=b._shift, adaptive=True) for b in h.binnings]
        other = Histogram1D(bs[0]) if h.ndim == 1 else HistogramND(bs)
        centre = [float(np.asarray(b.bins)[0].mean()) for b in bs]
        other.fill(centre[0] if h.ndim == 1 else centre)
        return other, "near-width"
    if kind == "shifted_grid":
        if cfg["mode"] != "adaptive" or any(b.bin_count == 0 for b in h.binnings):
            return NotImplemented, ""
        bs = [FixedWidthBinning(bin_width=b.bin_width, bin_count=2, bin_times_min=0,
                                bin_shift=(b._shift + b.bin_width * 0.37), adaptive=True) for b in h.binnings]
        other = Histogram1D(bs[0]) if h.ndim == 1 else HistogramND(bs)
        return other, "shifted-grid"
    if kind == "int":
        return 5, "int"
    if kind == "str":
        return "abc", "str"
    if kind == "none":
        return None, "None"
    if kind == "list":
        return np.ones(h.shape).tolist(), "list"
    if kind == "ndarray":
        return np.ones(h.shape), "ndarray"
    return NotImplemented, ""


# ----------------------------------------------------------------------------
# rules shared with C13 / C14 (enabled by those checks only)
# ----------------------------------------------------------------------------
def dtype_consistent(ctx, h, opname):
    d = np.dtype(h.dtype)
    if d != h.frequencies.dtype or d != h.errors2.dtype:
        ctx.violation("C13/dtype-consistent", f"C13/dtype!=arrays/{opname}",
                      f"after {opname}: dtype={d} frequencies.dtype={h.frequencies.dtype} errors2.dtype={h.errors2.dtype}")


def bag_moments(entries, bag):
    W = S1 = S2 = 0.0
    lo, hi = math.inf, -math.inf
    for i in bag:
        v, w = entries[i]
        w = 1.0 if w is None else float(w)
        W += w
        S1 += w * v
        S2 += w * v * v
        lo = min(lo, v)
        hi = max(hi, v)
    return W, S1, S2, lo, hi


def check_moments(ctx, cfg, entries, h, bag, opname):
    """C14: statistics are the moments of the raw data (only when every entry is within the bins)."""
    bins = np.asarray(h.bins, dtype=float)
    for i in bag:
        v = entries[i][0]
        if not np.any((bins[:, 0] <= v) & (v < bins[:, 1])) and not v == bins[-1, 1]:
            return
    st = h.statistics
    W, S1, S2, lo, hi = bag_moments(entries, bag)
    sc = sum(abs((1.0 if entries[i][1] is None else entries[i][1]) * entries[i][0] ** 2) for i in bag) + \
        sum(abs(1.0 if entries[i][1] is None else entries[i][1]) * (1 + abs(entries[i][0])) for i in bag) + 1.0
    for name, want, got, ex in (("weight", W, st.weight, False), ("sum", S1, st.sum, False),
                                ("sum2", S2, st.sum2, False), ("min", lo, st.min, True), ("max", hi, st.max, True)):
        if not bag and name in ("min", "max"):
            continue
        if not num_equal(want, got, exact=ex, scale=sc * 1e2):
            ctx.violation("C14/moments", f"C14/statistics.{name}/{opname}",
                          f"after {opname}: statistics.{name} = {got!r} but the {len(bag)} entries entered give {want!r}")


# ----------------------------------------------------------------------------
# dask scenario
# ----------------------------------------------------------------------------
def execute_dask(plan, ctx):
    from sim.daskexec import run_dask_scenario

    run_dask_scenario(plan, ctx)
